// C05 harness: drives the two ignore-pattern matchers of /repo on the same inputs and prints what
// each did, one JSON object per line.
//
//	Go side  : config.FilterIgnoredPaths (public API; excludeFile/filterPaths behind it)
//	Rego side: data.regal.config._pattern_compiler / _exclude / excluded_file and
//	           data.regal.main._file_name_relative_to_root, evaluated by OPA on the real embedded bundle
//	oracle   : gobwas/glob compiled with separator '/' directly from the library (independent of /repo)
//	end2end  : linter.Lint with global / per-rule ignores for a built-in, a custom and a custom aggregate rule
//	walk     : directory arguments on real trees (walk.go)
//
// usage: c05 <out.jsonl> <tier> <workdir> [replay.json]
package main

import (
	"context"
	"encoding/json"
	"fmt"
	"math/big"
	"os"
	"os/exec"
	"path/filepath"
	"runtime"
	"sort"
	"strings"
	"sync"
	"sync/atomic"
	"time"

	"github.com/gobwas/glob"

	"github.com/open-policy-agent/opa/v1/rego"

	rbundle "github.com/styrainc/regal/bundle"
	"github.com/styrainc/regal/pkg/builtins"
	"github.com/styrainc/regal/pkg/config"
	"github.com/styrainc/regal/pkg/linter"
	"github.com/styrainc/regal/pkg/rules"

	"verifharness/hutil"
)

// ---------------------------------------------------------------- generators

var tokens = []string{"a", "b.rego", "*", "**", "?", "/", "[ab]"}
var comps = []string{"a", "b", "a.rego", "b.rego"}

func tokenPatterns(maxTok int) [][]string {
	// result[k] = distinct patterns first reachable with exactly k+1 tokens
	seen := map[string]bool{}
	var res [][]string
	cur := []string{""}
	for k := 0; k < maxTok; k++ {
		var next, fresh []string
		for _, c := range cur {
			for _, t := range tokens {
				next = append(next, c+t)
			}
		}
		for _, p := range next {
			if !seen[p] {
				seen[p] = true
				fresh = append(fresh, p)
			}
		}
		// cur must keep duplicates out too: the set of strings of k+1 tokens
		uniq := map[string]bool{}
		cur = cur[:0]
		for _, p := range next {
			if !uniq[p] {
				uniq[p] = true
				cur = append(cur, p)
			}
		}
		res = append(res, fresh)
	}
	return res
}

func relPaths(maxDepth int) []string {
	var res []string
	cur := []string{""}
	for d := 0; d < maxDepth; d++ {
		var next []string
		for _, c := range cur {
			for _, k := range comps {
				if c == "" {
					next = append(next, k)
				} else {
					next = append(next, c+"/"+k)
				}
			}
		}
		res = append(res, next...)
		cur = next
	}
	return res
}

// Shape is one way a file reaches the two matchers: a path prefix and a spelling of the file names.
type Shape struct {
	Name    string   `json:"name"`
	Prefix  string   `json:"prefix"`
	Lead    string   `json:"lead"` // file name = Lead + relative path
	Full    bool     `json:"full"` // all relative paths or the small subset
	Files   []string `json:"files"`
	Rel     []string `json:"rel"`      // the relative paths the names were built from
	Group   string   `json:"group"`    // shapes of one group name the SAME files relative to their prefix: the same pattern must exclude the same files
	Enc     bool     `json:"enc"`      // file:// URI with the relative path percent-encoded, as a client spells it
	RegoRel []string `json:"rego_rel"` // data.regal.main._file_name_relative_to_root(file, prefix), observed
}

func shapes(all, small []string) []*Shape {
	mk := func(name, prefix, lead string, full bool) *Shape {
		s := &Shape{Name: name, Prefix: prefix, Lead: lead, Full: full}
		src := small
		if full {
			src = all
		}
		for _, r := range src {
			s.Files = append(s.Files, lead+r)
			s.Rel = append(s.Rel, r)
		}
		return s
	}
	grp := func(s *Shape, g string) *Shape { s.Group = g; return s }
	// names that are spelled differently as plain path, below an absolute directory and as file:// URI
	sp := func(name, prefix, lead string, enc bool) *Shape {
		s := &Shape{Name: name, Prefix: prefix, Lead: lead, Group: "special", Enc: enc}
		for _, r := range specialRels() {
			if enc {
				s.Files = append(s.Files, lead+uriEscapePath(r))
			} else {
				s.Files = append(s.Files, lead+r)
			}
			s.Rel = append(s.Rel, r)
		}
		return s
	}
	return []*Shape{
		grp(mk("noprefix-relative", "", "", true), "full"),
		grp(mk("absdir", "/w", "/w/", true), "full"),
		grp(mk("uri", "file:///w", "file:///w/", true), "full"),
		sp("special-relative", "", "", false),
		sp("special-absdir", "/w x", "/w x/", false),
		sp("special-absdir-odd", "/\u00e9/50%/a#b", "/\u00e9/50%/a#b/", false),
		sp("special-absdir-slash", "/a+b/", "/a+b/", false),
		sp("special-uri", "file:///w%20x", "file:///w%20x/", true),
		sp("special-uri-slash", "file:///%C3%A9/50%25/", "file:///%C3%A9/50%25/", true),
		mk("absdir-slash", "/w/", "/w/", false),
		mk("noprefix-absolute", "", "/w/", false),
		mk("rootdir", "/", "/", false),
		mk("absdir-relative-names", "/w", "", false),
		mk("foreign-prefix", "/x", "/w/", false),
		mk("uri-slash", "file:///w/", "file:///w/", false),
	}
}

var specialDirs = []string{"a b", "\u00e9", "\u65e5", "a#b", "50%", "a+b", "a?b", "x%20y"}
var specialFiles = []string{"a b.rego", "\u00e9.rego", "a#b.rego", "a+b.rego", "50%.rego", "\u65e5.rego", "b.rego"}

// specialRels: relative paths over names with a space, %, #, ?, +, non-ASCII letters and a literal "%20"
func specialRels() []string {
	res := append([]string{}, specialFiles...)
	for i, d := range specialDirs {
		for k := 0; k < 3; k++ {
			res = append(res, d+"/"+specialFiles[(i+2*k)%len(specialFiles)])
		}
	}
	return append(res, "a b/\u00e9/\u65e5.rego", "a#b/a+b/50%.rego", "a/a b/b.rego", "50%/a?b/a b.rego", "x%20y/a b/\u00e9.rego")
}

// uriEscapePath: a relative path as a client writes it into a URI: RFC 3986 unreserved characters and the separators stay,
// every other byte becomes %XY (this is also what regal's uri.FromPath produces)
func uriEscapePath(r string) string {
	var b strings.Builder
	for i := 0; i < len(r); i++ {
		c := r[i]
		switch {
		case c >= 'a' && c <= 'z', c >= 'A' && c <= 'Z', c >= '0' && c <= '9', c == '-', c == '_', c == '.', c == '~', c == '/':
			b.WriteByte(c)
		default:
			fmt.Fprintf(&b, "%%%02X", c)
		}
	}
	return b.String()
}

// closure: every string either expansion could conceivably hand to the glob engine for pattern p
func closure(p string) []string {
	seen := map[string]bool{}
	var res []string
	add := func(s string) {
		if !seen[s] {
			seen[s] = true
			res = append(res, s)
		}
	}
	for _, b := range []string{p, "**/" + p} {
		for _, b1 := range []string{b, strings.TrimPrefix(b, "/")} {
			for _, b2 := range []string{b1, strings.TrimPrefix(b1, "**/")} {
				add(b2)
				add(b2 + "/**")
				add(b2 + "**")
			}
		}
	}
	return res
}

// ---------------------------------------------------------------- bit masks

func maskHex(bits []bool) string {
	z := new(big.Int)
	for i, b := range bits {
		if b {
			z.SetBit(z, i, 1)
		}
	}
	return z.Text(16)
}

// ---------------------------------------------------------------- OPA on the real bundle

type opa struct {
	mu sync.Mutex
	pq map[string]*rego.PreparedEvalQuery
}

func newOpa() *opa { return &opa{pq: map[string]*rego.PreparedEvalQuery{}} }

func (o *opa) prepared(q string) *rego.PreparedEvalQuery {
	o.mu.Lock()
	defer o.mu.Unlock()
	if p, ok := o.pq[q]; ok {
		return p
	}
	args := append([]func(*rego.Rego){
		rego.ParsedBundle("regal", &rbundle.LoadedBundle),
		rego.Query(q),
	}, builtins.RegalBuiltinRegoFuncs...)
	p, err := rego.New(args...).PrepareForEval(context.Background())
	if err != nil {
		panic(fmt.Sprintf("prepare %q: %v", q, err))
	}
	o.pq[q] = &p
	return &p
}

func (o *opa) eval(q string, input any) any {
	p := o.prepared(q)
	rs, err := p.Eval(context.Background(), rego.EvalInput(input))
	if err != nil {
		panic(fmt.Sprintf("eval %q: %v", q, err))
	}
	if len(rs) == 0 {
		return nil
	}
	return rs[0].Bindings["x"]
}

const qCompiler = `x := [ [e | some e in data.regal.config._pattern_compiler(p)] | some p in input.patterns ]`

// per pattern, per shape: indices of excluded files
const qExclude = `x := [ [ [j | some j, f in sh.files
                              data.regal.config._exclude(p, data.regal.main._file_name_relative_to_root(f, sh.prefix))]
                         | some sh in input.shapes ]
                       | some p in input.patterns ]`

const qRel = `x := [ [data.regal.main._file_name_relative_to_root(f, sh.prefix) | some f in sh.files] | some sh in input.shapes ]`

// excluded_file with CLI list, config list and the rule's own list
const qExcludedFile = `x := [ j | some j, f in input.files
          data.regal.config.excluded_file("cat", "rule", f)
            with data.eval.params as {"ignore_files": input.cli}
            with data.internal.combined_config as input.cfg ]`

const qGlobal = `x := data.regal.config._global_ignore_patterns
            with data.eval.params as {"ignore_files": input.cli}
            with data.internal.combined_config as input.cfg`

func toInts(v any) []int {
	var res []int
	for _, x := range v.([]any) {
		n, _ := x.(json.Number).Int64()
		res = append(res, int(n))
	}
	return res
}

func toStrings(v any) []string {
	res := []string{}
	for _, x := range v.([]any) {
		res = append(res, x.(string))
	}
	sort.Strings(res)
	return res
}

// ---------------------------------------------------------------- function level, bulk

type Row struct {
	E    string `json:"e"`
	OK   bool   `json:"ok"`
	Mask string `json:"mask"` // hex bit set over the column universe
}

type PatCase struct {
	Kind     string   `json:"kind"`
	P        string   `json:"p"`
	Src      string   `json:"src"`
	Compiler []string `json:"compiler"`
	Rows     []Row    `json:"rows"`
	Go       []string `json:"go"`   // per shape: hex mask of excluded files, or "error"
	Rego     []string `json:"rego"` // per shape: hex mask of excluded files
	GoErr    string   `json:"go_err,omitempty"`
}

func indicesToMask(idx []int, n int) string {
	bits := make([]bool, n)
	for _, i := range idx {
		bits[i] = true
	}
	return maskHex(bits)
}

func goExcludedMask(files []string, pattern, prefix string) (string, string) {
	kept, err := config.FilterIgnoredPaths(files, []string{pattern}, false, prefix)
	if err != nil {
		return "error", err.Error()
	}
	// kept must be an order-preserving sublist; anything else is reported as-is by the caller
	bits := make([]bool, len(files))
	k := 0
	for i, f := range files {
		if k < len(kept) && kept[k] == f {
			k++
		} else {
			bits[i] = true
		}
	}
	if k != len(kept) {
		return "notsublist", fmt.Sprintf("%v", kept)
	}
	return maskHex(bits), ""
}

// enginePanics: the glob engine itself crashes on (some expansion of) the pattern for some column.
// Such a pattern takes down FilterIgnoredPaths and the OPA evaluation alike; it is outside the domain.
func enginePanics(p string, universe []string) (msg string) {
	defer func() {
		if r := recover(); r != nil {
			msg = fmt.Sprint(r)
		}
	}()
	for _, e := range closure(p) {
		g, err := glob.Compile(e, '/')
		if err != nil {
			continue
		}
		for _, u := range universe {
			msg = e + " on " + u
			g.Match(u)
		}
	}
	return ""
}

func bulk(out *hutil.Out, o *opa, pats []string, srcs map[string]string, shs []*Shape, universe []string) {
	{
		var ok []string
		for _, p := range pats {
			if m := enginePanics(p, universe); m != "" {
				out.Emit(map[string]any{"kind": "engine-panic", "p": p, "src": srcs[p], "what": m})
			} else {
				ok = append(ok, p)
			}
		}
		pats = ok
	}
	type shIn struct {
		Prefix string   `json:"prefix"`
		Files  []string `json:"files"`
	}
	var shIns []shIn
	for _, s := range shs {
		shIns = append(shIns, shIn{s.Prefix, s.Files})
	}
	res := make([]PatCase, len(pats))
	const chunk = 24
	var wg sync.WaitGroup
	sem := make(chan struct{}, runtime.NumCPU())
	for lo := 0; lo < len(pats); lo += chunk {
		hi := lo + chunk
		if hi > len(pats) {
			hi = len(pats)
		}
		wg.Add(1)
		sem <- struct{}{}
		go func(lo, hi int) {
			defer wg.Done()
			defer func() { <-sem }()
			ps := pats[lo:hi]
			comp := o.eval(qCompiler, map[string]any{"patterns": ps}).([]any)
			excl := o.eval(qExclude, map[string]any{"patterns": ps, "shapes": shIns}).([]any)
			for i, p := range ps {
				c := PatCase{Kind: "pat", P: p, Src: srcs[p], Compiler: toStrings(comp[i])}
				for si, s := range shs {
					c.Rego = append(c.Rego, indicesToMask(toInts(excl[i].([]any)[si]), len(s.Files)))
					m, e := goExcludedMask(s.Files, p, s.Prefix)
					c.Go = append(c.Go, m)
					if e != "" && c.GoErr == "" {
						c.GoErr = e
					}
				}
				for _, e := range closure(p) {
					g, err := glob.Compile(e, '/')
					r := Row{E: e, OK: err == nil}
					if err == nil {
						bits := make([]bool, len(universe))
						for k, u := range universe {
							bits[k] = g.Match(u)
						}
						r.Mask = maskHex(bits)
					} else {
						r.Mask = "0"
					}
					c.Rows = append(c.Rows, r)
				}
				res[lo+i] = c
			}
		}(lo, hi)
	}
	wg.Wait()
	for _, c := range res {
		out.Emit(c)
	}
}

// ---------------------------------------------------------------- function level, small self-contained cases

// SmallCase: several patterns at once (filterPaths), CLI/config/rule lists (excluded_file), odd bytes.
type SmallCase struct {
	Kind   string     `json:"kind"` // "small"
	Src    string     `json:"src"`
	Prefix string     `json:"prefix"`
	Files  []string   `json:"files"`
	Cli    []string   `json:"cli"`
	Cfg    []string   `json:"cfg"`
	CfgSet bool       `json:"cfg_set"` // config has an ignore.files key at all
	Rule   []string   `json:"rule"`
	Table  [][]string `json:"table"` // [pattern, "ok"/"bad", matching column strings...]
	Cols   []string   `json:"cols"`
	// observed
	GoSelected         []string `json:"go_selected"` // the list linter.Lint hands to FilterIgnoredPaths (mirrored here, see note)
	GoKept             []string `json:"go_kept"`     // FilterIgnoredPaths(files, selected, false, prefix)
	GoErr              bool     `json:"go_err"`      // ... returned an error
	RegoGlobal         []string `json:"rego_global"` // _global_ignore_patterns (nil if undefined)
	RegoGlobalDefined  bool     `json:"rego_global_defined"`
	RegoRel            []string `json:"rego_rel"`         // _file_name_relative_to_root per file
	RegoExcl           []int    `json:"rego_excl"`        // indices j with excluded_file(cat, rule, rel_j)
	RegoExclGlobalOnly []int    `json:"rego_excl_global"` // same with the rule list removed
}

func smallCase(o *opa, src, prefix string, files, cli, cfg []string, cfgSet bool, rule []string) SmallCase {
	c := SmallCase{Kind: "small", Src: src, Prefix: prefix, Files: files, Cli: cli, Cfg: cfg, CfgSet: cfgSet, Rule: rule}
	if c.Cli == nil {
		c.Cli = []string{}
	}
	if c.Cfg == nil {
		c.Cfg = []string{}
	}
	if c.Rule == nil {
		c.Rule = []string{}
	}
	// --- Go: the selection is two lines of linter.Lint (not callable in isolation); the Lint-level
	// cases observe it for real, here it is mirrored so that FilterIgnoredPaths gets the same list
	sel := c.Cfg
	if len(c.Cli) > 0 {
		sel = c.Cli
	}
	c.GoSelected = sel
	kept, err := config.FilterIgnoredPaths(files, sel, false, prefix)
	c.GoErr = err != nil
	c.GoKept = kept
	if c.GoKept == nil {
		c.GoKept = []string{}
	}
	// --- Rego
	rel := o.eval(qRel, map[string]any{"shapes": []any{map[string]any{"prefix": prefix, "files": files}}}).([]any)[0].([]any)
	for _, r := range rel {
		c.RegoRel = append(c.RegoRel, r.(string))
	}
	mkcfg := func(rule []string) map[string]any {
		m := map[string]any{"rules": map[string]any{"cat": map[string]any{"rule": map[string]any{
			"level": "error", "ignore": map[string]any{"files": rule}}}}}
		if cfgSet {
			m["ignore"] = map[string]any{"files": c.Cfg}
		}
		return m
	}
	g := o.eval(qGlobal, map[string]any{"cli": c.Cli, "cfg": mkcfg(c.Rule)})
	if g != nil {
		c.RegoGlobalDefined = true
		for _, x := range g.([]any) {
			c.RegoGlobal = append(c.RegoGlobal, x.(string))
		}
	}
	if c.RegoGlobal == nil {
		c.RegoGlobal = []string{}
	}
	c.RegoExcl = toInts(o.eval(qExcludedFile, map[string]any{"files": c.RegoRel, "cli": c.Cli, "cfg": mkcfg(c.Rule)}))
	c.RegoExclGlobalOnly = toInts(o.eval(qExcludedFile, map[string]any{"files": c.RegoRel, "cli": c.Cli, "cfg": mkcfg([]string{})}))
	if c.RegoExcl == nil {
		c.RegoExcl = []int{}
	}
	if c.RegoExclGlobalOnly == nil {
		c.RegoExclGlobalOnly = []int{}
	}
	// --- oracle table over every string either side could pass to the engine
	colSet := map[string]bool{}
	var cols []string
	addc := func(s string) {
		if !colSet[s] {
			colSet[s] = true
			cols = append(cols, s)
		}
	}
	for i, f := range files {
		addc(f)
		addc(strings.TrimPrefix(f, "/"))
		addc(c.RegoRel[i])
		for _, pre := range []string{prefix, prefix + "/", strings.TrimSuffix(prefix, "/")} {
			if pre != "" {
				addc(strings.TrimPrefix(f, pre))
			}
		}
	}
	c.Cols = cols
	patSet := map[string]bool{}
	for _, l := range [][]string{c.Cli, c.Cfg, c.Rule} {
		for _, p := range l {
			if patSet[p] {
				continue
			}
			patSet[p] = true
			for _, e := range closure(p) {
				row := []string{e}
				g, err := glob.Compile(e, '/')
				if err != nil {
					row = append(row, "bad")
				} else {
					row = append(row, "ok")
					for _, u := range cols {
						if g.Match(u) {
							row = append(row, u)
						}
					}
				}
				c.Table = append(c.Table, row)
			}
		}
	}
	return c
}

func buildUniverse(o *opa, shs []*Shape, all []string) []string {
	seen := map[string]bool{}
	var cols []string
	add := func(s string) {
		if !seen[s] {
			seen[s] = true
			cols = append(cols, s)
		}
	}
	for _, r := range all {
		add(r)
	}
	type shIn struct {
		Prefix string   `json:"prefix"`
		Files  []string `json:"files"`
	}
	var shIns []shIn
	for _, s := range shs {
		shIns = append(shIns, shIn{s.Prefix, s.Files})
	}
	rel := o.eval(qRel, map[string]any{"shapes": shIns}).([]any)
	for si, s := range shs {
		for _, r := range rel[si].([]any) {
			s.RegoRel = append(s.RegoRel, r.(string))
		}
		if s.Full {
			continue
		}
		for i, f := range s.Files {
			add(f)
			add(strings.TrimPrefix(f, "/"))
			add(s.RegoRel[i])
			for _, pre := range []string{s.Prefix, s.Prefix + "/", strings.TrimSuffix(s.Prefix, "/")} {
				if pre != "" {
					add(strings.TrimPrefix(f, pre))
				}
			}
		}
	}
	return cols
}

var oddAtoms = []string{"a", "b", ".rego", "*", "**", "?", "/", "[ab]", "[!a]", "{a,b}", "\\*", "é", "日", ".", "..", "-", " ", "a.rego", "**/", "/**",
	"#", "%", "+", "a b", "50%", "a#b", "a+b", "%20", "%23", "x%20y", "[ +#]", "%C3%A9"}
var badAtoms = []string{"[", "[a-", "{a", "\\", "[]", "{", "[^"}

func patternSet(rng *hutil.Rng, tier string, corpus []string) ([]string, map[string]string) {
	srcs := map[string]string{}
	var pats []string
	add := func(p, src string) {
		if p == "" {
			return // the empty pattern is a small case (Go never passes it to excludeFile)
		}
		if _, ok := srcs[p]; !ok {
			srcs[p] = src
			pats = append(pats, p)
		}
	}
	for _, p := range corpus {
		add(p, "corpus")
	}
	levels := tokenPatterns(4)
	for k := 0; k < 3; k++ {
		for _, p := range levels[k] {
			add(p, fmt.Sprintf("tokens%d", k+1))
		}
	}
	four := append([]string{}, levels[3]...)
	if tier == "thorough" {
		for _, p := range four {
			add(p, "tokens4")
		}
		// leading / trailing separator around the 4-token patterns, sampled
		for _, p := range four {
			switch rng.Below(6) {
			case 0:
				add("/"+p, "tokens4+lead")
			case 1:
				add(p+"/", "tokens4+trail")
			case 2:
				add("/"+p+"/", "tokens4+both")
			}
		}
	} else {
		hutil.Shuffle(rng, four)
		for _, p := range four[:350] {
			add(p, "tokens4")
		}
	}
	// patterns naming the special files: every component, directory forms, anchored and full paths (all of them: the
	// set is small), and wild cards around the special characters
	for _, r := range specialRels() {
		parts := strings.Split(r, "/")
		add(r, "special")
		add(parts[len(parts)-1], "special")
		if len(parts) > 1 {
			add(parts[0], "special")
			add(parts[0]+"/", "special")
			add("/"+parts[0]+"/", "special")
		}
	}
	for _, p := range []string{"a?b", "a?b.rego", "*#*", "* *", "* */", "/* */", "*%*", "50%/", "a%20b.rego", "a%20b", "x%2520y", "**/a+b/**",
		"a[ +]b", "?.rego", "\u65e5*", "*[#?+]*", "%C3%A9", "%C3%A9/", "a%23b", "/a b.rego", "**/a b.rego", "a b/**/\u65e5.rego", "[\u00e9]",
		"\u00e9/*.rego", "{a b,a#b}", "{a b,a#b}/", "*+*.rego"} {
		add(p, "special")
	}
	nOdd, nBad := 150, 40
	if tier == "thorough" {
		nOdd, nBad = 1500, 200
	}
	for i := 0; i < nOdd; i++ {
		n := 1 + rng.Below(5)
		p := ""
		for j := 0; j < n; j++ {
			p += hutil.Choice(rng, oddAtoms)
		}
		add(p, "odd")
	}
	for i := 0; i < nBad; i++ {
		n := 1 + rng.Below(3)
		p := ""
		for j := 0; j < n; j++ {
			if rng.Below(2) == 0 {
				p += hutil.Choice(rng, badAtoms)
			} else {
				p += hutil.Choice(rng, tokens)
			}
		}
		add(p, "malformed")
	}
	return pats, srcs
}

func smallCases(out *hutil.Out, o *opa, rng *hutil.Rng, tier string, all []string) {
	levels := tokenPatterns(3)
	var pool []string
	for _, l := range levels {
		pool = append(pool, l...)
	}
	names := all
	pickList := func(max int, allowEmpty bool) []string {
		all := names
		n := rng.Below(max + 1)
		l := []string{}
		for i := 0; i < n; i++ {
			switch {
			case allowEmpty && rng.Below(8) == 0:
				l = append(l, "")
			case rng.Below(3) == 0:
				// a pattern that certainly concerns some file of the case
				l = append(l, hutil.Choice(rng, all))
			default:
				l = append(l, hutil.Choice(rng, pool))
			}
		}
		return l
	}
	prefixes := []struct{ prefix, lead string }{
		{"", ""}, {"/w", "/w/"}, {"file:///w", "file:///w/"}, {"/w/", "/w/"}, {"", "/w/"}, {"/", "/"},
		{"/w", ""}, {"/x", "/w/"}, {"w", "w/"}, {"file:///w/", "file:///w/"},
	}
	// names with a space, %, #, ?, +, non-ASCII letters; below a URI prefix they are percent-encoded as a client spells them
	special := specialRels()
	for _, r := range specialRels() {
		parts := strings.Split(r, "/")
		special = append(special, parts[0])
	}
	spPrefixes := []struct {
		prefix, lead string
		enc          bool
	}{
		{"", "", false}, {"/w x", "/w x/", false}, {"/\u00e9/50%", "/\u00e9/50%/", false}, {"/a#b/", "/a#b/", false}, {"", "/w x/", false},
		{"file:///w%20x", "file:///w%20x/", true}, {"file:///%E6%97%A5/a%2Bb/", "file:///%E6%97%A5/a%2Bb/", true},
	}
	files := func(lead string, enc bool) []string {
		n := 6 + rng.Below(10)
		fs := []string{}
		for i := 0; i < n; i++ {
			r := hutil.Choice(rng, names)
			if enc {
				r = uriEscapePath(r)
			}
			fs = append(fs, lead+r)
		}
		return fs
	}
	// inputs are drawn sequentially from the one PRNG, the evaluation runs in parallel
	var jobs []func() SmallCase
	emit := func(f func() SmallCase) { jobs = append(jobs, f) }
	// fixed cases first: the empty pattern, precedence of the CLI list, stdin, duplicates
	fixedFiles := []string{"a/b.rego", "b.rego", "a/a/a.rego", "b/a.rego"}
	emit(func() SmallCase {
		return smallCase(o, "fixed:empty-pattern-config", "", fixedFiles, nil, []string{""}, true, nil)
	})
	emit(func() SmallCase {
		return smallCase(o, "fixed:empty-pattern-rule", "", fixedFiles, nil, nil, false, []string{""})
	})
	emit(func() SmallCase {
		return smallCase(o, "fixed:empty-pattern-cli", "", fixedFiles, []string{""}, []string{"a"}, true, nil)
	})
	emit(func() SmallCase {
		return smallCase(o, "fixed:empty-then-match", "", fixedFiles, nil, []string{"", "b.rego"}, true, nil)
	})
	emit(func() SmallCase {
		return smallCase(o, "fixed:cli-over-config", "", fixedFiles, []string{"b.rego"}, []string{"a"}, true, nil)
	})
	emit(func() SmallCase {
		return smallCase(o, "fixed:config-only", "", fixedFiles, nil, []string{"a"}, true, nil)
	})
	emit(func() SmallCase {
		return smallCase(o, "fixed:no-ignore-key", "", fixedFiles, nil, nil, false, []string{"b.rego"})
	})
	emit(func() SmallCase { return smallCase(o, "fixed:stdin", "", []string{"-"}, nil, []string{"*"}, true, nil) })
	emit(func() SmallCase {
		return smallCase(o, "fixed:dup-files", "/w", []string{"/w/a/b.rego", "/w/b.rego", "/w/a/b.rego"}, nil, []string{"/a"}, true, nil)
	})
	n := 250
	if tier == "thorough" {
		n = 3000
	}
	for i := 0; i < n; i++ {
		pp := hutil.Choice(rng, prefixes)
		enc := false
		names = all
		if rng.Below(3) == 0 {
			sp := hutil.Choice(rng, spPrefixes)
			pp.prefix, pp.lead, enc = sp.prefix, sp.lead, sp.enc
			names = special
		}
		var cli, cfg, rule []string
		cfgSet := rng.Below(5) != 0
		if rng.Below(3) == 0 {
			cli = pickList(2, true)
		}
		if cfgSet {
			cfg = pickList(4, true)
		}
		if rng.Below(2) == 0 {
			rule = pickList(2, true)
		}
		fs := files(pp.lead, enc)
		emit(func() SmallCase { return smallCase(o, "random", pp.prefix, fs, cli, cfg, cfgSet, rule) })
	}
	res := make([]SmallCase, len(jobs))
	var wg sync.WaitGroup
	sem := make(chan struct{}, runtime.NumCPU())
	for i, j := range jobs {
		wg.Add(1)
		sem <- struct{}{}
		go func(i int, j func() SmallCase) {
			defer wg.Done()
			defer func() { <-sem }()
			res[i] = j()
		}(i, j)
	}
	wg.Wait()
	for _, c := range res {
		out.Emit(c)
	}
}

// ---------------------------------------------------------------- end to end through linter.Lint

const builtinPolicy = "package p\n\ncamelCase := 1\n"

const customReportRule = `# METADATA
# description: fires once in every file
package custom.regal.rules.verif["every-file"]

import data.regal.result

report contains violation if {
	violation := result.fail(rego.metadata.chain(), result.location(input["package"].path[1]))
}
`

const customAggRule = `# METADATA
# description: one violation per file that contributed an aggregate entry
package custom.regal.rules.verif["every-file-agg"]

import data.regal.result

aggregate contains result.aggregate(rego.metadata.chain(), {})

aggregate_report contains violation if {
	some entry in input.aggregate
	violation := result.fail(rego.metadata.chain(), {"location": {
		"file": entry.aggregate_source.file, "row": 1, "col": 1, "text": "package p",
	}})
}
`

// LintCase: one linter.Lint run. Names are reported with the workspace root replaced by "/R".
type LintCase struct {
	Kind    string              `json:"kind"` // "lint"
	Src     string              `json:"src"`
	Mode    string              `json:"mode"`   // "paths-abs" | "paths-rel" | "modules-uri" | "modules-abs"
	Prefix  string              `json:"prefix"` // canonical ("/R" for the root)
	Cwd     string              `json:"cwd"`    // mode "cli": working directory relative to the root ("" = root, ".." = its parent)
	Arg     string              `json:"arg"`    // mode "cli": the path argument
	Rel     []string            `json:"rel"`    // root-relative names of the files handed to the linter
	Files   []string            `json:"files"`  // the names as the linter saw them (canonical)
	Cli     []string            `json:"cli"`
	Cfg     []string            `json:"cfg"`
	CfgSet  bool                `json:"cfg_set"`
	RuleIgn map[string][]string `json:"rule_ignore"` // per rule kind: builtin / custom / agg
	Table   [][]string          `json:"table"`
	Cols    []string            `json:"cols"`
	// observed
	Compiler     map[string][]string `json:"compiler"` // _pattern_compiler(p) for every pattern of the case
	Err          string              `json:"err,omitempty"`
	FilesScanned int                 `json:"files_scanned"`
	Hit          map[string][]string `json:"hit"` // rule kind -> canonical names of files with a violation of it
}

var ruleTitle = map[string][2]string{
	"builtin": {"style", "prefer-snake-case"},
	"custom":  {"verif", "every-file"},
	"agg":     {"verif", "every-file-agg"},
}

type lintEnv struct {
	root, rulesDir string
	rel            []string
}

func setupLint(work string) lintEnv {
	root := filepath.Join(work, "ws")
	rulesDir := filepath.Join(work, "customrules")
	must(os.MkdirAll(rulesDir, 0o755))
	must(os.WriteFile(filepath.Join(rulesDir, "every_file.rego"), []byte(customReportRule), 0o644))
	must(os.WriteFile(filepath.Join(rulesDir, "every_file_agg.rego"), []byte(customAggRule), 0o644))
	rel := []string{"a.rego", "b.rego", "a/a.rego", "a/b.rego", "b/a.rego", "a/b/b.rego", "b/a/a.rego", "a/a/b/b.rego",
		// names that are spelled differently in a file:// URI
		"a b/c d.rego", "\u00e9/\u65e5.rego", "a#b.rego", "50%/a+b.rego"}
	for _, r := range rel {
		p := filepath.Join(root, r)
		must(os.MkdirAll(filepath.Dir(p), 0o755))
		must(os.WriteFile(p, []byte(builtinPolicy), 0o644))
	}
	must(os.Chdir(root))
	return lintEnv{root: root, rulesDir: rulesDir, rel: rel}
}

func must(err error) {
	if err != nil {
		panic(err)
	}
}

func canon(root, s string) string {
	return strings.ReplaceAll(s, root, "/R")
}

func runLint(env lintEnv, c *LintCase) {
	decanon := func(s string) string { return strings.ReplaceAll(s, "/R", env.root) }
	// in patterns "R/" stands for the workspace root without its leading separator
	depat := func(l []string) []string {
		if l == nil {
			return nil
		}
		res := []string{}
		for _, p := range l {
			res = append(res, strings.ReplaceAll(p, "R/", env.root[1:]+"/"))
		}
		return res
	}
	prefix := decanon(c.Prefix)
	conf := config.Config{Rules: map[string]config.Category{}}
	if c.CfgSet {
		conf.Ignore.Files = depat(c.Cfg)
	}
	for kind, ign := range c.RuleIgn {
		ct := ruleTitle[kind]
		if conf.Rules[ct[0]] == nil {
			conf.Rules[ct[0]] = config.Category{}
		}
		conf.Rules[ct[0]][ct[1]] = config.Rule{Level: "error", Ignore: &config.Ignore{Files: depat(ign)}}
	}
	l := linter.NewLinter().WithUserConfig(conf).WithCustomRules([]string{env.rulesDir}).WithPathPrefix(prefix)
	if c.Cli != nil {
		l = l.WithIgnore(depat(c.Cli))
	}
	var names []string
	for _, f := range c.Files {
		names = append(names, decanon(f))
	}
	switch c.Mode {
	case "paths-abs", "paths-rel":
		l = l.WithInputPaths(names)
	default:
		m := map[string]string{}
		for _, n := range names {
			m[n] = builtinPolicy
		}
		in, err := rules.InputFromMap(m, nil)
		if err != nil {
			c.Err = canon(env.root, err.Error())
			return
		}
		l = l.WithInputModules(&in)
	}
	rep, err := l.Lint(context.Background())
	if err != nil {
		c.Err = canon(env.root, err.Error())
		return
	}
	c.FilesScanned = rep.Summary.FilesScanned
	c.Hit = map[string][]string{"builtin": {}, "custom": {}, "agg": {}}
	for _, v := range rep.Violations {
		for kind, ct := range ruleTitle {
			if v.Category == ct[0] && v.Title == ct[1] {
				c.Hit[kind] = append(c.Hit[kind], canon(env.root, v.Location.File))
			}
		}
	}
	for k := range c.Hit {
		sort.Strings(c.Hit[k])
	}
}

// runCli: the same observation through the built regal binary ($VERIF_C05_REGAL): its own project
// directory (named "R") with .regal/config.yaml, a working directory and one path argument.
var cliCounter atomic.Int64

func runCli(o *opa, env lintEnv, c *LintCase) {
	bin := os.Getenv("VERIF_C05_REGAL")
	dir := filepath.Join(filepath.Dir(env.root), "cli", fmt.Sprintf("c%d", cliCounter.Add(1)))
	root := filepath.Join(dir, "R")
	var err error
	for _, r := range env.rel {
		p := filepath.Join(root, r)
		must(os.MkdirAll(filepath.Dir(p), 0o755))
		must(os.WriteFile(p, []byte(builtinPolicy), 0o644))
	}
	cenv := lintEnv{root: root, rulesDir: env.rulesDir, rel: env.rel}
	lintTable(o, cenv, c)
	realPat := func(p string) string {
		if strings.HasPrefix(p, "/R/") || strings.HasPrefix(p, "R/") {
			return strings.Replace(p, "R/", root[1:]+"/", 1)
		}
		return p
	}
	conf := map[string]any{}
	if c.CfgSet {
		l := []string{}
		for _, p := range c.Cfg {
			l = append(l, realPat(p))
		}
		conf["ignore"] = map[string]any{"files": l}
	}
	rulesCfg := map[string]any{}
	for kind, ign := range c.RuleIgn {
		ct := ruleTitle[kind]
		cat, _ := rulesCfg[ct[0]].(map[string]any)
		if cat == nil {
			cat = map[string]any{}
			rulesCfg[ct[0]] = cat
		}
		l := []string{}
		for _, p := range ign {
			l = append(l, realPat(p))
		}
		cat[ct[1]] = map[string]any{"level": "error", "ignore": map[string]any{"files": l}}
	}
	if len(rulesCfg) > 0 {
		conf["rules"] = rulesCfg
	}
	must(os.MkdirAll(filepath.Join(root, ".regal"), 0o755))
	raw, _ := json.Marshal(conf) // JSON is YAML
	must(os.WriteFile(filepath.Join(root, ".regal", "config.yaml"), raw, 0o644))
	args := []string{"lint", "--format", "json", "--rules", env.rulesDir}
	for _, p := range c.Cli {
		args = append(args, "--ignore-files", realPat(p))
	}
	args = append(args, strings.Replace(c.Arg, "/R", root, 1))
	cmd := exec.Command(bin, args...)
	cmd.Dir = filepath.Join(root, c.Cwd)
	var stdout, stderr strings.Builder
	cmd.Stdout, cmd.Stderr = &stdout, &stderr
	err = cmd.Run()
	var rep struct {
		Violations []struct {
			Category string `json:"category"`
			Title    string `json:"title"`
			Location struct {
				File string `json:"file"`
			} `json:"location"`
		} `json:"violations"`
		Summary struct {
			FilesScanned int `json:"files_scanned"`
		} `json:"summary"`
	}
	if jerr := json.Unmarshal([]byte(stdout.String()), &rep); jerr != nil {
		c.Err = canon(root, fmt.Sprintf("%v: %s %s", err, stderr.String(), stdout.String()))
		return
	}
	c.FilesScanned = rep.Summary.FilesScanned
	c.Hit = map[string][]string{"builtin": {}, "custom": {}, "agg": {}}
	for _, v := range rep.Violations {
		for kind, ct := range ruleTitle {
			if v.Category == ct[0] && v.Title == ct[1] {
				c.Hit[kind] = append(c.Hit[kind], canon(root, v.Location.File))
			}
		}
	}
	for k := range c.Hit {
		sort.Strings(c.Hit[k])
	}
}

// lintTable asks the engine about the REAL strings of the run (real workspace root in names and
// patterns) and writes the answers with the root spelled "/R" (names) resp. "R" (root without its
// leading separator), the spelling used everywhere else in the case.
func lintTable(o *opa, env lintEnv, c *LintCase) {
	real := func(s string) string { return strings.ReplaceAll(s, "/R", env.root) }
	realPat := func(p string) string { return strings.ReplaceAll(p, "R/", env.root[1:]+"/") }
	canonAny := func(s string) string {
		s = strings.ReplaceAll(s, env.root, "/R")
		return strings.ReplaceAll(s, env.root[1:], "R")
	}
	colSet := map[string]bool{}
	var cols []string
	addc := func(s string) {
		if !colSet[s] {
			colSet[s] = true
			cols = append(cols, s)
		}
	}
	addc("__aggregate_report__")
	prefix := real(c.Prefix)
	for i, cf := range c.Files {
		f := real(cf)
		addc(f)
		addc(c.Rel[i])
		addc(strings.TrimPrefix(f, "/"))
		for _, pre := range []string{prefix, prefix + "/", strings.TrimSuffix(prefix, "/")} {
			if pre != "" {
				addc(strings.TrimPrefix(f, pre))
			}
		}
	}
	lists := [][]string{c.Cli, c.Cfg}
	for _, l := range c.RuleIgn {
		lists = append(lists, l)
	}
	c.Cols = nil
	for _, u := range cols {
		c.Cols = append(c.Cols, canonAny(u))
	}
	c.Compiler = map[string][]string{}
	patSet := map[string]bool{}
	for _, l := range lists {
		for _, cp := range l {
			if patSet[cp] {
				continue
			}
			patSet[cp] = true
			p := realPat(cp)
			comp := []string{}
			for _, e := range toStrings(o.eval(qCompiler, map[string]any{"patterns": []string{p}}).([]any)[0]) {
				comp = append(comp, canonAny(e))
			}
			c.Compiler[cp] = comp
			for _, e := range closure(p) {
				row := []string{canonAny(e)}
				g, err := glob.Compile(e, '/')
				if err != nil {
					row = append(row, "bad")
				} else {
					row = append(row, "ok")
					for _, u := range cols {
						if g.Match(u) {
							row = append(row, canonAny(u))
						}
					}
				}
				c.Table = append(c.Table, row)
			}
		}
	}
}

func lintCases(out *hutil.Out, o *opa, rng *hutil.Rng, tier string, work string) {
	env := setupLint(work)
	var cases []*LintCase
	mk := func(src, mode, prefix string, rel, cli, cfg []string, cfgSet bool, ign map[string][]string) {
		c := &LintCase{Kind: "lint", Src: src, Mode: mode, Prefix: prefix, Rel: rel, Cli: cli, Cfg: cfg, CfgSet: cfgSet, RuleIgn: ign}
		if c.Cfg == nil {
			c.Cfg = []string{}
		}
		if c.RuleIgn == nil {
			c.RuleIgn = map[string][]string{}
		}
		for _, r := range rel {
			switch mode {
			case "paths-abs", "modules-abs":
				c.Files = append(c.Files, "/R/"+r)
			case "paths-rel":
				c.Files = append(c.Files, r)
			case "modules-uri":
				// as a client (and regal's uri.FromPath) spells the file: the path percent-encoded
				c.Files = append(c.Files, "file:///R/"+uriEscapePath(r))
			}
		}
		cases = append(cases, c)
	}
	all := env.rel
	three := map[string][]string{"builtin": {"a/b.rego"}, "custom": {"a/b.rego"}, "agg": {"a/b.rego"}}
	// fixed: one global ignore, one per-rule ignore, per mode/prefix
	for _, mp := range [][2]string{{"paths-abs", "/R"}, {"paths-rel", "/R"}, {"paths-rel", ""}, {"modules-uri", "file:///R"},
		{"modules-abs", "/R"}, {"paths-abs", "/R/"}, {"paths-abs", ""}} {
		mk("fixed:global", mp[0], mp[1], all, nil, []string{"a/"}, true, nil)
		mk("fixed:per-rule", mp[0], mp[1], all, nil, nil, false, three)
		mk("fixed:per-rule-dir", mp[0], mp[1], all, nil, nil, false, map[string][]string{"builtin": {"/b/"}, "custom": {"/b/"}, "agg": {"/b/"}})
	}
	mk("fixed:cli-over-config", "paths-abs", "/R", all, []string{"b.rego"}, []string{"a/"}, true, nil)
	mk("fixed:cli-empty-list", "paths-abs", "/R", all, []string{}, []string{"a/"}, true, nil)
	mk("fixed:empty-pattern", "paths-abs", "/R", all, nil, []string{""}, true, nil)
	mk("fixed:empty-pattern-rule", "paths-abs", "/R", all, nil, nil, false, map[string][]string{"builtin": {""}, "custom": {""}, "agg": {""}})
	mk("fixed:abs-noprefix-rooted-pattern", "paths-abs", "", all, nil, nil, false,
		map[string][]string{"builtin": {"R/a/b.rego"}, "custom": {"R/a/b.rego"}, "agg": {"R/a/b.rego"}})
	mk("fixed:abs-noprefix-abs-cli-pattern", "paths-abs", "", all, []string{"/R/a/b.rego", "/R/b/"}, nil, false, nil)
	mk("fixed:agg-report-placeholder", "paths-abs", "/R", all, nil, nil, false, map[string][]string{"agg": {"__*"}, "custom": {"__*"}})
	mk("fixed:nothing", "paths-abs", "/R", all, nil, nil, false, nil)
	mk("fixed:single-file", "paths-abs", "/R", []string{"a/b.rego"}, nil, nil, false, nil)
	mk("fixed:two-files-one-ignored", "paths-abs", "/R", []string{"a/b.rego", "b.rego"}, nil, []string{"/b.rego"}, true, nil)
	spIgn := map[string][]string{"builtin": {"a#b.rego", "50%/"}, "custom": {"a#b.rego", "50%/"}, "agg": {"a#b.rego", "50%/"}}
	for _, mp := range [][2]string{{"paths-abs", "/R"}, {"paths-rel", "/R"}, {"modules-uri", "file:///R"}, {"modules-abs", "/R/"}} {
		mk("fixed:special-global", mp[0], mp[1], all, nil, []string{"a b/", "\u65e5.rego", "*+*"}, true, nil)
		mk("fixed:special-per-rule", mp[0], mp[1], all, nil, nil, false, spIgn)
		mk("fixed:special-encoded-pattern", mp[0], mp[1], all, nil, []string{"a%20b/", "*%*"}, true, nil)
	}

	// through the CLI binary: working directory x spelling of the path argument
	type cliShape struct{ cwd, arg string }
	cliShapes := []cliShape{{"", "."}, {"", "/R"}, {"a", "."}, {"a", ".."}, {"..", "R"}, {"a", "/R/a"}, {"..", "R/a"}}
	mkCli := func(src string, sh cliShape, cli, cfg []string, cfgSet bool, ign map[string][]string) {
		if os.Getenv("VERIF_C05_REGAL") == "" {
			return
		}
		c := &LintCase{Kind: "lint", Src: src, Mode: "cli", Prefix: "/R", Cwd: sh.cwd, Arg: sh.arg, Cli: cli, Cfg: cfg, CfgSet: cfgSet, RuleIgn: ign}
		if c.Cfg == nil {
			c.Cfg = []string{}
		}
		if c.RuleIgn == nil {
			c.RuleIgn = map[string][]string{}
		}
		// the directory the argument denotes, relative to the root
		sub := ""
		if strings.HasSuffix(sh.arg, "/a") || (sh.cwd == "a" && sh.arg == ".") {
			sub = "a/"
		}
		for _, r := range all {
			if !strings.HasPrefix(r, sub) {
				continue
			}
			c.Rel = append(c.Rel, r)
			// filepath.WalkDir joins the argument with the path below it
			c.Files = append(c.Files, filepath.Join(sh.arg, strings.TrimPrefix(r, sub)))
		}
		cases = append(cases, c)
	}
	for _, sh := range cliShapes {
		mkCli("fixed:cli-global-anchored", sh, nil, []string{"/b.rego", "a/b/"}, true, nil)
		mkCli("fixed:cli-per-rule", sh, nil, nil, false, map[string][]string{"builtin": {"a/b.rego"}, "custom": {"a/b.rego"}, "agg": {"a/b.rego"}})
	}
	mkCli("fixed:cli-flag-over-config", cliShapes[1], []string{"b.rego"}, []string{"a/"}, true, nil)
	mkCli("fixed:cli-flag-over-config", cliShapes[0], []string{"b.rego"}, []string{"a/"}, true, nil)
	mkCli("fixed:cli-unanchored", cliShapes[2], nil, []string{"b.rego"}, true, nil)

	levels := tokenPatterns(3)
	var pool []string
	for _, l := range levels {
		pool = append(pool, l...)
	}
	pick := func(max int) []string {
		n := rng.Below(max + 1)
		l := []string{}
		for i := 0; i < n; i++ {
			if rng.Below(2) == 0 {
				r := hutil.Choice(rng, all)
				switch rng.Below(6) {
				case 0:
					l = append(l, r)
				case 1:
					l = append(l, "/"+r)
				case 2:
					l = append(l, filepath.Dir(r)+"/")
				case 3:
					l = append(l, "/R/"+r)
				case 4:
					l = append(l, "R/"+filepath.Dir(r)+"/")
				default:
					l = append(l, filepath.Base(r))
				}
			} else {
				l = append(l, hutil.Choice(rng, pool))
			}
		}
		return l
	}
	n := 40
	if tier == "thorough" {
		n = 600
	}
	modes := [][2]string{{"paths-abs", "/R"}, {"paths-abs", "/R"}, {"paths-rel", "/R"}, {"modules-uri", "file:///R"}, {"modules-abs", "/R"},
		{"paths-abs", ""}, {"paths-rel", ""}, {"paths-abs", "/R/"}}
	for i := 0; i < n; i++ {
		mp := hutil.Choice(rng, modes)
		var cli []string
		if rng.Below(4) == 0 {
			cli = pick(2)
		}
		cfgSet := rng.Below(3) != 0
		var cfg []string
		if cfgSet {
			cfg = pick(2)
		}
		ign := map[string][]string{}
		for _, k := range []string{"builtin", "custom", "agg"} {
			if rng.Below(2) == 0 {
				ign[k] = pick(2)
			}
		}
		rel := all
		if rng.Below(5) == 0 {
			rel = all[:1+rng.Below(3)]
		}
		mk("random", mp[0], mp[1], rel, cli, cfg, cfgSet, ign)
		if i%4 == 0 {
			mkCli("random", hutil.Choice(rng, cliShapes), cli, cfg, cfgSet, ign)
		}
	}
	runAll(o, env, cases)
	for _, c := range cases {
		out.Emit(c)
	}
}

func runAll(o *opa, env lintEnv, cases []*LintCase) {
	var wg sync.WaitGroup
	sem := make(chan struct{}, runtime.NumCPU())
	for _, c := range cases {
		wg.Add(1)
		sem <- struct{}{}
		go func(c *LintCase) {
			defer wg.Done()
			defer func() { <-sem }()
			if c.Mode == "cli" {
				runCli(o, env, c)
			} else {
				lintTable(o, env, c)
				runLint(env, c)
			}
		}(c)
	}
	wg.Wait()
}

// ---------------------------------------------------------------- replay

func replay(out *hutil.Out, o *opa, file, work string) {
	raw, err := os.ReadFile(file)
	must(err)
	var r struct {
		Case json.RawMessage `json:"case"`
	}
	must(json.Unmarshal(raw, &r))
	var k struct {
		Kind string `json:"kind"`
	}
	must(json.Unmarshal(r.Case, &k))
	switch k.Kind {
	case "small":
		var c SmallCase
		must(json.Unmarshal(r.Case, &c))
		out.Emit(smallCase(o, "replay", c.Prefix, c.Files, c.Cli, c.Cfg, c.CfgSet, c.Rule))
	case "lint":
		var c LintCase
		must(json.Unmarshal(r.Case, &c))
		env := setupLint(work)
		c.Table, c.Hit, c.Err, c.FilesScanned = nil, nil, "", 0
		runAll(o, env, []*LintCase{&c})
		out.Emit(c)
	case "walk":
		var c WalkCase
		must(json.Unmarshal(r.Case, &c))
		c.Table, c.Cols, c.Compiler, c.Hit, c.Kept, c.Err, c.FilesScanned = nil, nil, nil, nil, nil, "", 0
		runWalkCases(o, walkEnvFor(work), []*WalkCase{&c})
		out.Emit(c)
	case "pat":
		var c struct {
			P      string   `json:"p"`
			Shape  *Shape   `json:"shape"`
			Shapes []*Shape `json:"shapes"`
		}
		must(json.Unmarshal(r.Case, &c))
		all := relPaths(4)
		shs := shapes(all, relPaths(2))
		if c.Shape != nil {
			c.Shapes = append(c.Shapes, c.Shape)
		}
		if len(c.Shapes) > 0 {
			shs = c.Shapes
			for _, s := range shs {
				s.Full = false
				s.RegoRel = nil
			}
		}
		universe := buildUniverse(o, shs, all)
		out.Emit(map[string]any{"kind": "universe", "cols": universe})
		for _, s := range shs {
			out.Emit(map[string]any{"kind": "shape", "shape": s})
		}
		bulk(out, o, []string{c.P}, map[string]string{c.P: "replay"}, shs, universe)
	default:
		panic("unknown case kind " + k.Kind)
	}
}

// ---------------------------------------------------------------- main

func main() {
	if len(os.Args) < 5 {
		fmt.Fprintln(os.Stderr, "usage: c05 <out.jsonl> <tier> <workdir> <corpus.json> [replay.json]")
		os.Exit(2)
	}
	out := hutil.NewOut(os.Args[1])
	defer out.Close()
	tier := os.Args[2]
	work := os.Args[3]
	rng := hutil.NewRng(hutil.SeedFromEnv())
	o := newOpa()

	if len(os.Args) > 5 {
		replay(out, o, os.Args[5], work)
		return
	}
	var corpus []string
	if raw, err := os.ReadFile(os.Args[4]); err == nil {
		must(json.Unmarshal(raw, &corpus))
	}

	all := relPaths(4)
	small := append([]string{}, relPaths(2)...)
	for i := 0; i < 12; i++ {
		small = append(small, all[20+rng.Below(len(all)-20)])
	}
	shs := shapes(all, small)
	universe := buildUniverse(o, shs, all)
	out.Emit(map[string]any{"kind": "universe", "cols": universe})
	for _, s := range shs {
		out.Emit(map[string]any{"kind": "shape", "shape": s})
	}
	pats, srcs := patternSet(rng, tier, corpus)
	lap("setup")
	bulk(out, o, pats, srcs, shs, universe)
	lap("bulk")
	smallCases(out, o, rng, tier, all)
	lap("small")
	finishWalk := walkCases(out, o, rng, tier, work)
	lap("walk-seq")
	lintCases(out, o, rng, tier, work)
	lap("lint")
	finishWalk()
	lap("walk")
}

var t0 = time.Now()

func lap(what string) {
	if os.Getenv("VERIF_C05_TIMING") != "" {
		fmt.Fprintf(os.Stderr, "%-8s %6.1fs\n", what, time.Since(t0).Seconds())
	}
}
