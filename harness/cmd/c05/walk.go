// Walk layer of the C05 harness: real directory trees given as DIRECTORY arguments.
//
// Every case owns a tree <work>/walk/<n>/<ancestors...>/<root>/... whose directory names AT EVERY LEVEL -- the
// argument itself and the directories above it up to <work>/walk/<n> -- are taken from the alphabet the patterns are
// built from (a, b.rego, build, gen, .hidden ...), so that they match or do not match the ignore patterns.  The
// directory is handed, as an absolute path (with and without trailing separator), as ".", "./" or a relative
// sub-directory, with the project root as prefix, with the prefix ending in a separator and without prefix, to
//
//	filter  config.FilterIgnoredPaths([arg], ignore, true, prefix)
//	lint    linter.Lint with WithInputPaths([arg]) (global, CLI and per-rule ignores)
//	cli     the regal binary (own .regal/config.yaml in the root, working directory = root)
//
// Names are reported with <work>/walk/<n> spelled "/W": the ancestors and the root's own name stay visible.
package main

import (
	"context"
	"encoding/json"
	"fmt"
	"os"
	"os/exec"
	"path/filepath"
	"runtime"
	"sort"
	"strings"
	"sync"

	"github.com/gobwas/glob"

	"github.com/styrainc/regal/pkg/config"
	"github.com/styrainc/regal/pkg/linter"

	"verifharness/hutil"
)

type WEntry struct {
	Rel  string `json:"rel"`  // relative to the root directory
	Kind string `json:"kind"` // file | dir
}

type WalkCase struct {
	Kind    string              `json:"kind"` // "walk"
	Src     string              `json:"src"`
	Mode    string              `json:"mode"`    // filter | lint | cli
	Anc     []string            `json:"anc"`     // directories between /W and the root
	Root    string              `json:"root"`    // canonical absolute path of the project root: /W/<anc...>/<name>
	Entries []WEntry            `json:"entries"` // the tree below the root (sorted)
	Sub     string              `json:"sub"`     // the argument denotes root/<sub> ("" = the root itself)
	Arg     string              `json:"arg"`     // the argument as spelled (canonical); relative ones are relative to the root
	RelArg  bool                `json:"rel_arg"` // relative argument: the working directory is the root
	Prefix  string              `json:"prefix"`  // canonical: "" | root | root + "/"
	Cli     []string            `json:"cli"`
	Cfg     []string            `json:"cfg"`
	CfgSet  bool                `json:"cfg_set"`
	RuleIgn map[string][]string `json:"rule_ignore"`
	// engine answers for the real strings of the run, written in canonical spelling
	Table    [][]string          `json:"table"`
	Cols     []string            `json:"cols"`
	Compiler map[string][]string `json:"compiler"`
	// observed
	Err          string              `json:"err,omitempty"`
	Kept         []string            `json:"kept"` // mode filter: the result, in order (canonical)
	FilesScanned int                 `json:"files_scanned"`
	Hit          map[string][]string `json:"hit"`
}

type walkEnv struct {
	work, rulesDir string
}

func (c *WalkCase) base(env walkEnv, n int) string {
	return filepath.Join(env.work, "walk", fmt.Sprintf("t%d", n))
}

// materialise creates the tree; returns the real path standing for "/W"
func (c *WalkCase) materialise(env walkEnv, n int) string {
	w := c.base(env, n)
	root := w + strings.TrimPrefix(c.Root, "/W")
	must(os.MkdirAll(root, 0o755))
	for _, e := range c.Entries {
		p := filepath.Join(root, e.Rel)
		if e.Kind == "dir" {
			must(os.MkdirAll(p, 0o755))
		} else {
			must(os.MkdirAll(filepath.Dir(p), 0o755))
			must(os.WriteFile(p, []byte(builtinPolicy), 0o644))
		}
	}
	return w
}

func regoRelsBelow(c *WalkCase) []string {
	var out []string
	for _, e := range c.Entries {
		if e.Kind == "file" && strings.HasSuffix(e.Rel, ".rego") && (c.Sub == "" || strings.HasPrefix(e.Rel, c.Sub+"/")) {
			out = append(out, e.Rel)
		}
	}
	return out
}

// walkTable: the engine's answers for every name either side may hand to it
func walkTable(o *opa, c *WalkCase, w string) {
	real := func(s string) string {
		if strings.HasPrefix(s, "/W") {
			return w + strings.TrimPrefix(s, "/W")
		}
		return s
	}
	canonAny := func(s string) string {
		s = strings.ReplaceAll(s, w, "/W")
		return strings.ReplaceAll(s, w[1:], "W")
	}
	colSet := map[string]bool{}
	var cols []string
	addc := func(s string) {
		if !colSet[s] {
			colSet[s] = true
			cols = append(cols, s)
		}
	}
	addc("__aggregate_report__")
	root := real(c.Root)
	prefix := real(c.Prefix)
	arg := c.Arg
	if !c.RelArg {
		arg = real(c.Arg)
	}
	for _, r := range regoRelsBelow(c) {
		below := strings.TrimPrefix(strings.TrimPrefix(r, c.Sub), "/")
		f := filepath.Join(arg, below) // filepath.WalkDir joins the argument with the path below it
		addc(f)
		addc(r)
		addc(filepath.Join(root, r))
		addc(strings.TrimPrefix(filepath.Join(root, r), "/"))
		addc(strings.TrimPrefix(f, "/"))
		for _, pre := range []string{prefix, prefix + "/", strings.TrimSuffix(prefix, "/")} {
			if pre != "" {
				addc(strings.TrimPrefix(f, pre))
			}
		}
	}
	// the directories themselves (the argument as spelled, its absolute path, "."): no matcher may ever be asked
	// about them, but the table can answer
	addc(arg)
	addc(root)
	addc(strings.TrimPrefix(root, "/"))
	addc(".")
	c.Cols = nil
	for _, u := range cols {
		c.Cols = append(c.Cols, canonAny(u))
	}
	c.Compiler = map[string][]string{}
	c.Table = nil
	lists := [][]string{c.Cli, c.Cfg}
	for _, k := range []string{"builtin", "custom", "agg"} {
		lists = append(lists, c.RuleIgn[k])
	}
	patSet := map[string]bool{}
	for _, l := range lists {
		for _, p := range l {
			if patSet[p] {
				continue
			}
			patSet[p] = true
			comp := []string{}
			for _, e := range toStrings(o.eval(qCompiler, map[string]any{"patterns": []string{p}}).([]any)[0]) {
				comp = append(comp, e)
			}
			c.Compiler[p] = comp
			for _, e := range closure(p) {
				row := []string{e}
				g, err := glob.Compile(e, '/')
				if err != nil {
					row = append(row, "bad")
				} else {
					row = append(row, "ok")
					for _, u := range cols {
						if g.Match(u) {
							row = append(row, canonAny(u))
						}
					}
				}
				c.Table = append(c.Table, row)
			}
		}
	}
}

func (c *WalkCase) userConfig() config.Config {
	conf := config.Config{Rules: map[string]config.Category{}}
	if c.CfgSet {
		conf.Ignore.Files = c.Cfg
	}
	for kind, ign := range c.RuleIgn {
		ct := ruleTitle[kind]
		if conf.Rules[ct[0]] == nil {
			conf.Rules[ct[0]] = config.Category{}
		}
		conf.Rules[ct[0]][ct[1]] = config.Rule{Level: "error", Ignore: &config.Ignore{Files: ign}}
	}
	return conf
}

// runWalk: one case on its own tree; relative arguments of the in-process modes need the process's working
// directory, the caller serialises those
func runWalk(o *opa, env walkEnv, c *WalkCase, n int) {
	w := c.materialise(env, n)
	defer os.RemoveAll(w)
	walkTable(o, c, w)
	real := func(s string) string {
		if strings.HasPrefix(s, "/W") {
			return w + strings.TrimPrefix(s, "/W")
		}
		return s
	}
	canon := func(s string) string { return strings.ReplaceAll(s, w, "/W") }
	root := real(c.Root)
	arg := c.Arg
	if !c.RelArg {
		arg = real(c.Arg)
	}
	c.Hit = map[string][]string{"builtin": {}, "custom": {}, "agg": {}}
	c.Kept = []string{}
	switch c.Mode {
	case "filter":
		if c.RelArg {
			must(os.Chdir(root))
		}
		ign := c.Cfg
		if len(c.Cli) > 0 {
			ign = c.Cli
		}
		kept, err := config.FilterIgnoredPaths([]string{arg}, ign, true, real(c.Prefix))
		if err != nil {
			c.Err = canon(err.Error())
			return
		}
		for _, k := range kept {
			c.Kept = append(c.Kept, canon(k))
		}
		c.FilesScanned = len(kept)
	case "lint":
		if c.RelArg {
			must(os.Chdir(root))
		}
		l := linter.NewLinter().WithUserConfig(c.userConfig()).WithCustomRules([]string{env.rulesDir}).
			WithPathPrefix(real(c.Prefix)).WithInputPaths([]string{arg})
		if c.Cli != nil {
			l = l.WithIgnore(c.Cli)
		}
		rep, err := l.Lint(context.Background())
		if err != nil {
			c.Err = canon(err.Error())
			return
		}
		c.FilesScanned = rep.Summary.FilesScanned
		for _, v := range rep.Violations {
			for kind, ct := range ruleTitle {
				if v.Category == ct[0] && v.Title == ct[1] {
					c.Hit[kind] = append(c.Hit[kind], canon(v.Location.File))
				}
			}
		}
	case "cli":
		conf := map[string]any{}
		if c.CfgSet {
			conf["ignore"] = map[string]any{"files": c.Cfg}
		}
		rulesCfg := map[string]any{}
		for kind, ign := range c.RuleIgn {
			ct := ruleTitle[kind]
			cat, _ := rulesCfg[ct[0]].(map[string]any)
			if cat == nil {
				cat = map[string]any{}
				rulesCfg[ct[0]] = cat
			}
			cat[ct[1]] = map[string]any{"level": "error", "ignore": map[string]any{"files": ign}}
		}
		if len(rulesCfg) > 0 {
			conf["rules"] = rulesCfg
		}
		must(os.MkdirAll(filepath.Join(root, ".regal"), 0o755))
		raw, _ := json.Marshal(conf) // JSON is YAML
		must(os.WriteFile(filepath.Join(root, ".regal", "config.yaml"), raw, 0o644))
		args := []string{"lint", "--format", "json", "--rules", env.rulesDir}
		for _, p := range c.Cli {
			args = append(args, "--ignore-files", p)
		}
		args = append(args, arg)
		cmd := exec.Command(os.Getenv("VERIF_C05_REGAL"), args...)
		cmd.Dir = root
		cmd.Env = append(os.Environ(), "PWD="+root)
		var stdout, stderr strings.Builder
		cmd.Stdout, cmd.Stderr = &stdout, &stderr
		err := cmd.Run()
		var rep struct {
			Violations []struct {
				Category string `json:"category"`
				Title    string `json:"title"`
				Location struct {
					File string `json:"file"`
				} `json:"location"`
			} `json:"violations"`
			Summary struct {
				FilesScanned int `json:"files_scanned"`
			} `json:"summary"`
		}
		if jerr := json.Unmarshal([]byte(stdout.String()), &rep); jerr != nil {
			c.Err = canon(fmt.Sprintf("%v: %s %s", err, stderr.String(), stdout.String()))
			return
		}
		c.FilesScanned = rep.Summary.FilesScanned
		for _, v := range rep.Violations {
			for kind, ct := range ruleTitle {
				if v.Category == ct[0] && v.Title == ct[1] {
					c.Hit[kind] = append(c.Hit[kind], canon(v.Location.File))
				}
			}
		}
	}
	for k := range c.Hit {
		sort.Strings(c.Hit[k])
	}
}

// ---------------------------------------------------------------- generator

// names of directories above the root and of the root itself: the alphabet of the patterns
var walkAnc = [][]string{{}, {"a"}, {"b.rego"}, {"ci", "build"}, {"a", "b"}, {".hidden"}, {"gen", "a.rego"}, {"b", "proj"},
	{"my ci", "50%"}, {"\u00e9"}, {"a#b", "a+b"}}
var walkRootNames = []string{"proj", "a", "b", "a.rego", "b.rego", "build", "gen", ".cfg", "ci", "my proj", "\u65e5", "a+b"}

// what can be below the root
var walkEntryU = []string{"a.rego", "b.rego", "a/a.rego", "a/b.rego", "b/a.rego", "b/b.rego", "a/b/b.rego", "a/a/a.rego", "b/a/b.rego",
	"build/c.rego", "policy/build/d.rego", "policy/b.rego", ".hidden/e.rego", "gen/x.rego", "gen/a/y.rego", "a.rego/b.rego", "b.rego/a/a.rego",
	"proj/a.rego", "ci/b.rego", "node_modules/m.rego", ".git/g.rego", "a/.idea/i.rego", "data.json", "a/README", "b/a.rego.txt",
	"a b/c d.rego", "\u00e9/\u65e5.rego", "a#b.rego", "50%/a+b.rego", "a?b/p.rego", "my proj/x.rego"}

var walkPatterns = []string{"a", "b", "a/", "b/", "/a", "/a/", "b.rego", "a.rego", "/b.rego", "a/b.rego", "build", "build/", "/build/", "gen/", "gen",
	"proj", "proj/", "ci", "c?", "b*", "*", "**", "?", ".*", ".hidden/", "*.rego", "**/a", "a/**", "**/build/**", "policy/", "[ab]", "a.rego/", "/b.rego/",
	"W/", "W", "",
	"a b", "a b/", "/a b/", "\u00e9", "\u00e9/", "\u65e5.rego", "\u65e5", "a#b.rego", "*#*", "50%/", "50%", "a+b", "my proj", "my*", "a?b", "* *", "*+*", "c d.rego"}

func genWalkCases(rng *hutil.Rng, tier string) []*WalkCase {
	var cases []*WalkCase
	mkTree := func(rels []string) []WEntry {
		seen := map[string]bool{}
		var es []WEntry
		isDir := map[string]bool{}
		for _, r := range rels {
			for d := filepath.Dir(r); d != "."; d = filepath.Dir(d) {
				isDir[d] = true
			}
		}
		for _, r := range rels {
			if isDir[r] { // a.rego is a directory in this tree (a.rego/b.rego): it cannot be a file too
				continue
			}
			d := filepath.Dir(r)
			for d != "." && !seen[d] {
				seen[d] = true
				es = append(es, WEntry{Rel: d, Kind: "dir"})
				d = filepath.Dir(d)
			}
			if !seen[r] {
				seen[r] = true
				es = append(es, WEntry{Rel: r, Kind: "file"})
			}
		}
		sort.Slice(es, func(i, j int) bool { return es[i].Rel < es[j].Rel })
		return es
	}
	type pats struct {
		cli, cfg []string
		cfgSet   bool
		ign      map[string][]string
	}
	add := func(src, mode string, anc []string, name string, entries []WEntry, sub, argForm, prefixForm string, p pats) {
		root := "/W"
		for _, a := range anc {
			root += "/" + a
		}
		root += "/" + name
		dir := root
		if sub != "" {
			dir = root + "/" + sub
		}
		c := &WalkCase{Kind: "walk", Src: src, Mode: mode, Anc: anc, Root: root, Entries: entries, Sub: sub,
			Cli: p.cli, Cfg: p.cfg, CfgSet: p.cfgSet, RuleIgn: p.ign}
		if c.Cfg == nil {
			c.Cfg = []string{}
		}
		if c.RuleIgn == nil {
			c.RuleIgn = map[string][]string{}
		}
		switch argForm {
		case "abs":
			c.Arg = dir
		case "abs/":
			c.Arg = dir + "/"
		case ".":
			c.RelArg = true
			c.Arg = "."
			if sub != "" {
				c.Arg = sub
			}
		case "./":
			c.RelArg = true
			c.Arg = "./"
			if sub != "" {
				c.Arg = "./" + sub
			}
		}
		switch prefixForm {
		case "root":
			c.Prefix = root
		case "root/":
			c.Prefix = root + "/"
		case "":
			c.Prefix = ""
		}
		if mode == "cli" {
			c.Prefix = root // the directory holding .regal
		}
		cases = append(cases, c)
	}
	argForms := []string{"abs", "abs/", ".", "./"}
	prefixForms := []string{"root", "root/", ""}
	full := mkTree(walkEntryU)
	small := mkTree([]string{"a.rego", "policy/b.rego", "build/c.rego", "policy/build/d.rego", ".hidden/e.rego", "a/b.rego", "a b/c d.rego",
		"\u00e9/\u65e5.rego", "50%/a+b.rego"})

	// fixed: every ancestor / root name with patterns that name them, all argument and prefix forms, through the function
	fixedPats := [][]string{{"build/"}, {"a"}, {"c?"}, {".*"}, {"b.rego"}, {"proj", "gen/"}, {"*"}, {"/a"}, {"a.rego/"}, {}, {"a b/", "my*"}, {"\u00e9", "50%/"},
		{"a+b", "\u65e5"}}
	k := 0
	for ai, anc := range walkAnc {
		for ni, name := range walkRootNames {
			if tier != "thorough" && (ai+ni)%3 != 0 {
				continue
			}
			for fi, fp := range fixedPats {
				if tier != "thorough" && (ai >= 8 || ni >= 9) != (fi >= 10) && (fi+ai+ni)%2 == 1 {
					continue // quick: the round-3 names and patterns mostly against each other
				}
				k++
				af := argForms[k%len(argForms)]
				pf := prefixForms[(k/2)%len(prefixForms)]
				if tier == "thorough" {
					for _, af2 := range argForms {
						for _, pf2 := range prefixForms {
							add("fixed", "filter", anc, name, small, "", af2, pf2, pats{cfg: fp, cfgSet: true})
						}
					}
					continue
				}
				add("fixed", "filter", anc, name, small, "", af, pf, pats{cfg: fp, cfgSet: true})
			}
		}
	}
	// fixed, end to end: the linter and the binary on a root whose own name and ancestors match the global pattern,
	// which is also every rule's own pattern
	three := func(p ...string) map[string][]string {
		return map[string][]string{"builtin": p, "custom": p, "agg": p}
	}
	e2e := []struct {
		anc  []string
		name string
		pat  []string
	}{{[]string{"ci", "build"}, "proj", []string{"build/"}}, {[]string{"a"}, "b.rego", []string{"a", "b.rego"}}, {[]string{}, "gen", []string{"gen/"}},
		{[]string{".hidden"}, "proj", []string{".*"}}, {[]string{"a", "b"}, "a", []string{"/a"}}, {[]string{"b", "proj"}, "ci", []string{"c?", "proj"}},
		{[]string{"my ci", "50%"}, "my proj", []string{"my*", "50%"}}, {[]string{"\u00e9"}, "a+b", []string{"a+b", "\u00e9/"}}}
	for i, x := range e2e {
		add("fixed:e2e", "lint", x.anc, x.name, full, "", "abs", []string{"root", "root/"}[i%2], pats{cfg: x.pat, cfgSet: true})
		add("fixed:e2e", "lint", x.anc, x.name, full, "", "abs", "root", pats{cli: x.pat})
		add("fixed:e2e", "lint", x.anc, x.name, full, "", "abs", "root", pats{ign: three(x.pat...)})
		add("fixed:e2e", "cli", x.anc, x.name, full, "", []string{"abs", ".", "abs/", "./"}[i%4], "root", pats{cfg: x.pat, cfgSet: true})
		if i%2 == 0 {
			add("fixed:e2e", "cli", x.anc, x.name, full, "", []string{".", "abs"}[i/2%2], "root", pats{cli: x.pat, ign: three(x.pat[0])})
		}
	}

	// random
	nf, nl, nc := 170, 18, 14
	if tier == "thorough" {
		nf, nl, nc = 4000, 300, 150
	}
	pick := func(max int) []string {
		n := rng.Below(max + 1)
		l := []string{}
		for i := 0; i < n; i++ {
			l = append(l, hutil.Choice(rng, walkPatterns))
		}
		return l
	}
	randTree := func() []WEntry {
		var rels []string
		for _, r := range walkEntryU {
			if rng.Below(3) == 0 {
				rels = append(rels, r)
			}
		}
		if len(rels) == 0 {
			rels = []string{"a.rego"}
		}
		es := mkTree(rels)
		if rng.Below(4) == 0 { // an empty directory, a directory named like a rego file
			es = append(es, WEntry{Rel: "empty.rego", Kind: "dir"})
			sort.Slice(es, func(i, j int) bool { return es[i].Rel < es[j].Rel })
		}
		return es
	}
	randCase := func(mode string) {
		anc := hutil.Choice(rng, walkAnc)
		name := hutil.Choice(rng, walkRootNames)
		es := randTree()
		sub := ""
		if rng.Below(4) == 0 { // a sub-directory of the project as argument
			var dirs []string
			for _, e := range es {
				if e.Kind == "dir" && !strings.Contains(e.Rel, ".git") {
					dirs = append(dirs, e.Rel)
				}
			}
			if len(dirs) > 0 {
				sub = hutil.Choice(rng, dirs)
			}
		}
		var p pats
		switch rng.Below(4) {
		case 0:
			p.cli = pick(2)
			p.cfg, p.cfgSet = pick(2), true
		default:
			p.cfg, p.cfgSet = pick(3), true
		}
		if mode != "filter" {
			p.ign = map[string][]string{}
			for _, kd := range []string{"builtin", "custom", "agg"} {
				if rng.Below(2) == 0 {
					p.ign[kd] = pick(2)
				}
			}
		}
		af := hutil.Choice(rng, argForms)
		pf := hutil.Choice(rng, prefixForms)
		if mode == "lint" { // in process and in parallel: absolute arguments only
			af = hutil.Choice(rng, argForms[:2])
		}
		add("random", mode, anc, name, es, sub, af, pf, p)
	}
	for i := 0; i < nf; i++ {
		randCase("filter")
	}
	for i := 0; i < nl; i++ {
		randCase("lint")
	}
	if os.Getenv("VERIF_C05_REGAL") != "" {
		for i := 0; i < nc; i++ {
			randCase("cli")
		}
	} else {
		var keep []*WalkCase
		for _, c := range cases {
			if c.Mode != "cli" {
				keep = append(keep, c)
			}
		}
		cases = keep
	}
	return cases
}

func walkEnvFor(work string) walkEnv {
	rulesDir := filepath.Join(work, "customrules")
	must(os.MkdirAll(rulesDir, 0o755))
	must(os.WriteFile(filepath.Join(rulesDir, "every_file.rego"), []byte(customReportRule), 0o644))
	must(os.WriteFile(filepath.Join(rulesDir, "every_file_agg.rego"), []byte(customAggRule), 0o644))
	return walkEnv{work: work, rulesDir: rulesDir}
}

// runWalkCases: cases that change the working directory of this process first, one after the other; then the rest
// side by side.  The returned function waits for them.
func startWalkCases(o *opa, env walkEnv, cases []*WalkCase) (wait func()) {
	cwd, _ := os.Getwd()
	for i, c := range cases {
		if c.RelArg && c.Mode != "cli" {
			runWalk(o, env, c, i)
		}
	}
	must(os.Chdir(cwd))
	var wg sync.WaitGroup
	wg.Add(1)
	go func() {
		defer wg.Done()
		var inner sync.WaitGroup
		sem := make(chan struct{}, runtime.NumCPU())
		for i, c := range cases {
			if c.RelArg && c.Mode != "cli" {
				continue
			}
			inner.Add(1)
			sem <- struct{}{}
			go func(i int, c *WalkCase) {
				defer inner.Done()
				defer func() { <-sem }()
				runWalk(o, env, c, i)
			}(i, c)
		}
		inner.Wait()
	}()
	return wg.Wait
}

func runWalkCases(o *opa, env walkEnv, cases []*WalkCase) {
	startWalkCases(o, env, cases)()
}

// walkCases starts the layer; the absolute-argument and binary cases go on while the caller does other work (they do
// not depend on the working directory of this process).  finish waits and writes the observations.
func walkCases(out *hutil.Out, o *opa, rng *hutil.Rng, tier, work string) (finish func()) {
	env := walkEnvFor(work)
	cases := genWalkCases(rng, tier)
	wait := startWalkCases(o, env, cases)
	return func() {
		wait()
		for _, c := range cases {
			out.Emit(c)
		}
	}
}
