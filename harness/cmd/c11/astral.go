// C11 harness, part 3: lines where the column of a fixable violation is preceded by characters outside of the
// basic multilingual plane (4 bytes in UTF-8, 2 code units in UTF-16, 1 character for the parser), alone and
// combined with 2- and 3-byte characters, inside string literals, with a '#', '=', ':=' or '"' placed inside a
// string at every small distance to the left of the character the fix has to edit.  Any way of counting columns
// other than "one per character" (bytes, UTF-16 code units, display cells) lands on one of them for some line.
package main

import (
	"fmt"
	"strings"

	"verifharness/hutil"
)

var astralChars = []string{"\U0001F600", "\U0001F511", "\U00010348", "\U0001D11E", "\U0002070E", "\U0001F3F4"}
var twoByte = []string{"é", "ß", "λ"}
var threeByte = []string{"日", "€", "✓"}

// astralPrefix: text with exactly k characters outside of the BMP; mix 0: nothing else, 1: with 2-byte characters,
// 2: with 3-byte characters, 3: with both and ASCII
func astralPrefix(rng *hutil.Rng, k, mix int) string {
	var b strings.Builder
	for i := 0; i < k; i++ {
		if (mix == 1 || mix == 3) && rng.Below(2) == 0 {
			b.WriteString(hutil.Choice(rng, twoByte))
		}
		if (mix == 2 || mix == 3) && rng.Below(2) == 0 {
			b.WriteString(hutil.Choice(rng, threeByte))
		}
		if mix == 3 && rng.Below(3) == 0 {
			b.WriteString(" ")
		}
		b.WriteString(hutil.Choice(rng, astralChars))
	}
	switch mix {
	case 1:
		b.WriteString(hutil.Choice(rng, twoByte))
	case 2:
		b.WriteString(hutil.Choice(rng, threeByte))
	case 3:
		b.WriteString(hutil.Choice(rng, twoByte) + hutil.Choice(rng, threeByte))
	}
	return b.String()
}

// the decoys: text put into a string literal whose LAST character is the one a fix looks for
var decoys = []string{"=", "#", `\"`, ":="}

func filler(n int) string { return strings.Repeat("abcdefgh", 2)[:n] }

// astralLine: one rule on one line with a violation of the given fix kind; the decoy's last character is d
// characters to the left of the character the fix has to edit and k astral characters precede both.
// ok = false when the syntax leaves no room for that distance.
func astralLine(rng *hutil.Rng, kind string, k, d int, decoy string, mix, idx int) (string, bool) {
	p := astralPrefix(rng, k, mix)
	form := rng.Below(3)
	sp := ""
	switch kind {
	case "uao":
		// decoy, n fillers, quote, bracket, sp, '='
		n := d - 3
		if n > 0 && rng.Below(2) == 0 {
			sp, n = " ", n-1
		}
		if n < 0 {
			return "", false
		}
		val := hutil.Choice(rng, []string{"1", `"=#"`, "1 # = \"", `"` + hutil.Choice(rng, astralChars) + `="`})
		s := p + decoy + filler(n)
		switch form {
		case 0:
			return fmt.Sprintf(`u%d("%s")%s= %s`, idx, s, sp, val), true
		case 1:
			return fmt.Sprintf(`u%d["%s"]%s= %s`, idx, s, sp, val), true
		}
		return fmt.Sprintf(`u%d("%s", "%s")%s= %s`, idx, p, decoy+filler(n), sp, val), true
	case "nwc":
		cm := hutil.Choice(rng, []string{"#c", "#=", "#\"q", "#" + hutil.Choice(rng, astralChars), "##", "#:= x"})
		// decoy, n fillers, quote, (bracket,) sp, '#'
		base := 3
		if form == 0 || d < 3 {
			form, base = 0, 2
		}
		n := d - base
		if n > 0 && rng.Below(2) == 0 {
			sp, n = " ", n-1
		}
		if n < 0 {
			return "", false
		}
		switch form {
		case 0:
			return fmt.Sprintf(`n%d := "%s"%s%s`, idx, p+decoy+filler(n), sp, cm), true
		case 1:
			return fmt.Sprintf(`n%d := count("%s")%s%s`, idx, p+decoy+filler(n), sp, cm), true
		}
		return fmt.Sprintf(`n%d := ["%s", "%s"]%s%s`, idx, p, decoy+filler(n), sp, cm), true
	case "nrr":
		pat := hutil.Choice(rng, []string{`\\d+`, `[a-z]+`, `a\\\\b`, `\\s`, `x`})
		fn := "regex.replace(%s,%s\"" + pat + "\", \"r\")"
		if form == 1 {
			fn = "regex.globs_match(%s,%s\"" + pat + "\")"
		}
		if decoy == `\"` && (d == 2 || d == 3) {
			// the closing quote of the argument before the pattern is itself a quote d characters to the left
			if d == 3 {
				sp = " "
			}
			return fmt.Sprintf("r%d := "+fn, idx, `"`+p+`"`, sp), true
		}
		// decoy, n fillers, quote, comma, sp, quote
		n := d - 3
		if n > 0 && rng.Below(2) == 0 {
			sp, n = " ", n-1
		}
		if n < 0 {
			return "", false
		}
		return fmt.Sprintf("r%d := "+fn, idx, `"`+p+decoy+filler(n)+`"`, sp), true
	}
	return "", false
}

type astralMod struct {
	kind    string
	content string
	v0      bool
}

// astralModules: the whole grid kind x k (1..4) x d (1..6) x decoy, each with astral characters only and with a
// mix of other multi-byte characters, grouped into modules of one kind
func astralModules(rng *hutil.Rng, tier string) []astralMod {
	var out []astralMod
	per := 16
	for _, kind := range []string{"uao", "nwc", "nrr"} {
		var lines []string
		for k := 1; k <= 4; k++ {
			for d := 1; d <= 6; d++ {
				for di, dc := range decoys {
					for v := 0; v < 2; v++ {
						if tier == "quick" && v != (k+d+di)%2 {
							continue // quick: one of the two variants per cell
						}
						mix := 0
						if v == 1 {
							mix = 1 + rng.Below(3)
						}
						if l, ok := astralLine(rng, kind, k, d, dc, mix, len(lines)); ok {
							lines = append(lines, l)
						}
					}
				}
			}
		}
		hutil.Shuffle(rng, lines)
		for i := 0; i < len(lines); i += per {
			j := min(i+per, len(lines))
			m := "package p\n\n" + strings.Join(lines[i:j], "\n") + "\n"
			n := len(out)
			if n%5 == 4 {
				m = strings.ReplaceAll(m, "\n", "\r\n")
			}
			out = append(out, astralMod{kind, m, n%4 == 3})
		}
	}
	return out
}
