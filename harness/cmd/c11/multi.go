// C11 harness, part 2: what happens BETWEEN the files of one run.
//
//   - "seq" cases: one instance of the Fmt fix (the one regal fix registers for opa-fmt or use-rego-v1, or one
//     built with given options as the language server does) formats a list of candidates in a given order;
//     after every call the result and the RegoVersion left in the instance's options are recorded, together
//     with the tabulated oracles of the model (the harness' own parse, OPA's formatter called directly for
//     every target version) and the predicate on the implementation: same result as a fresh instance,
//     result parses under the version of the file, equals OPA's formatter output for that version.
//   - "multi" cases: Fixer.Fix over file sets mixing v0 and v1 modules (version configured through roots,
//     detected from the syntax, or both), several rule subsets; the per-file predicate of the single-file
//     cases plus: with opa-fmt enabled the result is a fixpoint of OPA's formatter for the file's version.
package main

import (
	"context"
	"fmt"
	"sort"
	"strings"
	"time"

	"github.com/open-policy-agent/opa/v1/ast"
	"github.com/open-policy-agent/opa/v1/format"

	"github.com/styrainc/regal/pkg/fixer/fixes"

	"verifharness/hutil"
)

// ------------------------------------------------------------------------------ versions

func verName(v ast.RegoVersion) string {
	switch v {
	case ast.RegoV0:
		return "v0"
	case ast.RegoV0CompatV1:
		return "v0v1"
	case ast.RegoV1:
		return "v1"
	}
	return "undef"
}

func verOf(s string) ast.RegoVersion {
	switch s {
	case "v0":
		return ast.RegoV0
	case "v0v1":
		return ast.RegoV0CompatV1
	case "v1":
		return ast.RegoV1
	}
	return ast.RegoUndefined
}

func importsRegoV1(m *ast.Module) bool {
	for _, i := range m.Imports {
		if ast.RegoV1CompatibleRef.Equal(i.Path.Value) {
			return true
		}
	}
	return false
}

// parseAs: the module and its version as regal determines them (documented in internal/parse): with a configured
// version that parser is used; otherwise (no configuration) a name ending in _v0.rego means v0, else the v1 parser
// is tried, then the v0 parser; a module importing rego.v1 is "v0 compatible with v1"
func parseAs(file, content string, cfg ast.RegoVersion) (*ast.Module, ast.RegoVersion, error) {
	if cfg == ast.RegoUndefined && strings.HasSuffix(file, "_v0.rego") {
		cfg = ast.RegoV0
	}
	if cfg != ast.RegoUndefined {
		m, err := ast.ParseModuleWithOpts(file, content, ast.ParserOptions{ProcessAnnotation: true, RegoVersion: cfg})
		if err != nil {
			return nil, ast.RegoUndefined, err
		}
		return m, m.RegoVersion(), nil
	}
	var last error
	for _, v := range []ast.RegoVersion{ast.RegoV1, ast.RegoV0} {
		m, err := ast.ParseModuleWithOpts(file, content, ast.ParserOptions{ProcessAnnotation: true, RegoVersion: v})
		if err != nil {
			last = err
			continue
		}
		if importsRegoV1(m) {
			v = ast.RegoV0CompatV1
		}
		m.SetRegoVersion(v)
		return m, v, nil
	}
	return nil, ast.RegoUndefined, last
}

// isV0File: the version a file HAS, for the predicate: the parser that accepts the original
func isV0File(file, content string, cfg ast.RegoVersion) (v0 bool, ok bool) {
	_, v, err := parseAs(file, content, cfg)
	if err != nil {
		return false, false
	}
	if cfg == ast.RegoV0 {
		return true, true
	}
	return v == ast.RegoV0, true
}

// formatFor: OPA's formatter, called directly, for an explicit target version
func formatFor(file, content string, cfg, target ast.RegoVersion) (out string, ok bool) {
	defer func() {
		if r := recover(); r != nil {
			out, ok = "", false
		}
	}()
	m, _, err := parseAs(file, content, cfg) // the formatter rewrites the AST: a new parse for every call
	if err != nil {
		return "", false
	}
	b, err := format.AstWithOpts(m, format.Opts{RegoVersion: target})
	if err != nil {
		return "", false
	}
	return string(b), true
}

// formatTarget: a v0 module is written in the syntax valid in v0 and v1, others in their own version
func formatTarget(mv ast.RegoVersion) ast.RegoVersion {
	if mv == ast.RegoV0 {
		return ast.RegoV0CompatV1
	}
	return mv
}

// formatFixpoint: OPA's formatter applied until nothing changes (it needs two rounds for raw strings in else heads)
func formatFixpoint(file, content string, cfg ast.RegoVersion) (string, bool) {
	cur := content
	for k := 0; k < 5; k++ {
		_, mv, err := parseAs(file, cur, cfg)
		if err != nil {
			return "", false
		}
		out, ok := formatFor(file, cur, cfg, formatTarget(mv))
		if !ok {
			return "", false
		}
		if out == cur {
			return cur, true
		}
		cur = out
	}
	return cur, true
}

// ------------------------------------------------------------------------------ seq cases

type SeqStep struct {
	File    string            `json:"file"`
	Content string            `json:"content"` // base64
	Cfg     string            `json:"cfg"`     // configured version ("undef": detect)
	Parsed  string            `json:"parsed"`  // harness' parse: module version, "err"
	Table   map[string]string `json:"table"`   // target version -> base64 of OPA's formatter output ("!" = error)
	Status  string            `json:"status"`  // none | changed | error | panic
	Out     string            `json:"out"`     // base64
	State   string            `json:"state"`   // OPAFmtOpts.RegoVersion after the call
	Other   int               `json:"other"`   // the other option fields after the call (0 = zero values)
	Fresh   string            `json:"fresh"`   // status of the same call on a fresh instance
	Pred    string            `json:"pred"`
}

type SeqCase struct {
	Kind  string    `json:"kind"`
	ID    int       `json:"id"`
	Src   string    `json:"src"`
	Inst  string    `json:"inst"` // opa-fmt | use-rego-v1 (instance of NewDefaultFixes) | opts (built with Init)
	Init  string    `json:"init"` // OPAFmtOpts.RegoVersion before the first call
	Steps []SeqStep `json:"steps"`
	Pred  string    `json:"pred"`
}

func otherOpts(o format.Opts) int {
	n := 0
	if o.IgnoreLocations {
		n |= 1
	}
	if o.DropV0Imports {
		n |= 2
	}
	if o.ParserOptions != nil {
		n |= 4
	}
	return n
}

func callFmt(f *fixes.Fmt, file, content string, cfg ast.RegoVersion) (status, out string) {
	defer func() {
		if r := recover(); r != nil {
			status, out = "panic", ""
		}
	}()
	res, err := f.Fix(&fixes.FixCandidate{Filename: file, Contents: content, RegoVersion: cfg},
		&fixes.RuntimeOptions{BaseDir: wsRoot})
	switch {
	case err != nil:
		return "error", ""
	case len(res) == 0:
		return "none", ""
	}
	return "changed", res[0].Contents
}

func newFmtInstance(inst, init string) *fixes.Fmt {
	if inst == "opts" {
		return &fixes.Fmt{OPAFmtOpts: format.Opts{RegoVersion: verOf(init)}}
	}
	for _, f := range fixes.NewDefaultFixes() {
		if fm, ok := f.(*fixes.Fmt); ok && f.Name() == inst {
			return fm
		}
	}
	panic("no instance of the Fmt fix registered for " + inst)
}

type seqIn struct {
	file, content, cfg string
}

func runSeq(id int, src, inst, init string, in []seqIn) SeqCase {
	c := SeqCase{Kind: "seq", ID: id, Src: src, Inst: inst}
	f := newFmtInstance(inst, init)
	c.Init = verName(f.OPAFmtOpts.RegoVersion)
	for k, s := range in {
		cfg := verOf(s.cfg)
		st := SeqStep{File: s.file, Content: b64(s.content), Cfg: s.cfg, Table: map[string]string{}}
		_, mv, perr := parseAs(s.file, s.content, cfg)
		st.Parsed = "err"
		if perr == nil {
			st.Parsed = verName(mv)
		}
		for _, t := range []ast.RegoVersion{ast.RegoUndefined, ast.RegoV0, ast.RegoV0CompatV1, ast.RegoV1} {
			if o, ok := formatFor(s.file, s.content, cfg, t); ok {
				st.Table[verName(t)] = b64(o)
			} else {
				st.Table[verName(t)] = "!"
			}
		}
		status, out := callFmt(f, s.file, s.content, cfg)
		st.Status, st.Out = status, b64(out)
		st.State, st.Other = verName(f.OPAFmtOpts.RegoVersion), otherOpts(f.OPAFmtOpts)
		// ---- the predicate on the implementation
		fstatus, fout := callFmt(newFmtInstance(inst, init), s.file, s.content, cfg)
		st.Fresh = fstatus
		switch {
		case status == "panic":
			st.Pred = "fix-panics"
		case fstatus != status || fout != out:
			st.Pred = "result-depends-on-files-handled-before"
		case status == "error" && perr == nil:
			st.Pred = "fix-fails-on-a-module-that-parses"
		case status == "changed":
			v0, _ := isV0File(s.file, s.content, cfg)
			want, ok := formatFor(s.file, s.content, cfg, formatTarget(mv))
			switch {
			case perr != nil:
				st.Pred = "changed-a-module-that-does-not-parse"
			case !ok || want != out:
				st.Pred = "not-opa-fmt-output-for-the-version-of-the-file"
			default:
				if p := predicate(s.file, s.content, out, v0, map[string]bool{"fmt": true}); p != "" {
					st.Pred = p
				}
			}
		}
		if st.Pred != "" && c.Pred == "" {
			c.Pred = fmt.Sprintf("step-%d:%s", k+1, st.Pred)
		}
		c.Steps = append(c.Steps, st)
	}
	return c
}

// candidate modules for the sequences: formatted and not, v1 only / v0 only / valid in both, rego.v1 and
// future.keywords imports, CRLF, comments, an unparsable one
var seqV1 = []string{
	"package a\n\nallow if   input.admin\n",
	"package a\n\nallow if input.admin\n",
	"package a\n\nimport rego.v1\n\ndeny contains msg if { msg := \"x\" }\n",
	"package a\n\np contains x if {\n\tsome x in [1,2]\n}\n\nq := 1 if {\n\ttrue\n} else := `r` if {\n\tfalse\n}\n",
	"package a\r\n\r\nr   :=   {\"k\":  1}\r\n",
}
var seqV0 = []string{
	"package b\n\ndeny[msg] { msg := \"denied\" }\n",
	"package b\n\n# c\ndeny[msg] {\n\tmsg := \"denied\"\n}\n",
	"package b\n\nimport future.keywords.in\n\nallow { 1 in [1] }\n",
	"package b\n\nimport future.keywords\n\nallow if { true }\nf(x) = y { y := x }\n",
	"package b\n\nimport rego.v1\n\ndeny contains msg if msg := \"denied\"\n",
	"package b\r\n\r\np[x] { x := 1 }\r\n",
}
var seqBoth = []string{
	"package c\n\nx := 1\n", "package c\n\nx  =  1\n", "package c\n\ndefault  y := false\n", "package c\n#nospace\n\nz := {\"a\":1}\n",
	"package c\n\nbroken := \n",
}

func permutations(n int) [][]int {
	if n == 0 {
		return [][]int{{}}
	}
	var out [][]int
	for _, p := range permutations(n - 1) {
		for i := 0; i <= len(p); i++ {
			q := append(append(append([]int{}, p[:i]...), n-1), p[i:]...)
			out = append(out, q)
		}
	}
	return out
}

func seqCases(rng *hutil.Rng, tier string, emit func(SeqCase)) {
	id := 0
	run := func(src, inst, init string, in []seqIn) {
		emit(runSeq(id, src, inst, init, in))
		id++
	}
	cand := func(kind string, cfgMode int, i int) seqIn {
		var pool []string
		var dir string
		switch kind {
		case "v1":
			pool, dir = seqV1, "v1"
		case "v0":
			pool, dir = seqV0, "v0"
		default:
			pool, dir = seqBoth, hutil.Choice(rng, []string{"v0", "v1", "p"})
		}
		content := pool[rng.Below(len(pool))]
		cfg := "undef"
		// cfgMode 0: every file configured through its root; 1: nothing configured; 2: only the v0 root
		if cfgMode == 0 || (cfgMode == 2 && dir == "v0") {
			cfg = map[string]string{"v0": "v0", "v1": "v1", "p": "undef"}[dir]
		}
		return seqIn{fmt.Sprintf("%s/%s/m%d/m%d.rego", wsRoot, dir, i, i), content, cfg}
	}
	// every pair (v1, v0) of the pools in both orders, the three configuration modes, both registered instances
	for mode := 0; mode < 3; mode++ {
		for i, a := range seqV1 {
			for j, b := range seqV0 {
				if tier == "quick" && (i+j+mode)%3 != 0 {
					continue
				}
				ca, cb := "undef", "undef"
				if mode == 0 {
					ca = "v1"
				}
				if mode != 1 {
					cb = "v0"
				}
				x := seqIn{wsRoot + "/v1/a/a.rego", a, ca}
				y := seqIn{wsRoot + "/v0/b/b.rego", b, cb}
				inst := []string{"opa-fmt", "use-rego-v1"}[(i+j)%2]
				run("pair", inst, "", []seqIn{x, y})
				run("pair", inst, "", []seqIn{y, x})
			}
		}
	}
	// instances built with options, as the language server does: every initial version
	for _, init := range []string{"undef", "v0", "v0v1", "v1"} {
		for mode := 0; mode < 3; mode++ {
			run("opts", "opts", init, []seqIn{cand("v0", mode, 0), cand("v1", mode, 1), cand("both", mode, 2), cand("v0", mode, 3)})
		}
	}
	// random sets of 2-4 candidates: every order (n <= 3) or a few orders
	n := 14
	if tier != "quick" {
		n = 200
	}
	for k := 0; k < n; k++ {
		mode := rng.Below(3)
		sz := 2 + rng.Below(3)
		var set []seqIn
		for i := 0; i < sz; i++ {
			kind := []string{"v1", "v0", "both"}[rng.Below(3)]
			if i < 2 {
				kind = []string{"v1", "v0"}[i] // always mixed
			}
			set = append(set, cand(kind, mode, i))
		}
		perms := permutations(sz)
		if sz > 3 {
			hutil.Shuffle(rng, perms)
			perms = perms[:6]
		}
		inst := []string{"opa-fmt", "use-rego-v1"}[rng.Below(2)]
		for _, p := range perms {
			var in []seqIn
			for _, i := range p {
				in = append(in, set[i])
			}
			if rng.Below(4) == 0 {
				in = append(in, in[0]) // the first file once more (a later iteration of the fixer)
			}
			run("rand", inst, "", in)
		}
	}
}

// ------------------------------------------------------------------------------ multi cases

type MFile struct {
	Path    string `json:"path"`
	Content string `json:"content"` // base64
	Cfg     string `json:"cfg"`     // version configured for the file's root ("undef": detected)
	V0      bool   `json:"v0"`      // the version the file has
	Final   string `json:"final"`   // base64
	Pred    string `json:"pred"`
	FmtEq   string   `json:"fmt_eq"` // "", eq, neq, fmterr
	Applied []string `json:"applied"`
}

type MultiCase struct {
	Kind    string   `json:"kind"`
	ID      int      `json:"id"`
	Src     string   `json:"src"`
	Mode    string   `json:"mode"` // roots | detect | v0root
	Rules   []string `json:"rules"`
	Files   []MFile  `json:"files"`
	ParseOK bool     `json:"parse_ok"`
	NViol   int      `json:"nviol"`
	Iters   int      `json:"iters"`
	Err     string   `json:"err"`
	ErrMsg  string   `json:"errmsg,omitempty"`
	Pred    string   `json:"pred"` // first failing file: "<reason>"
	BadFile string   `json:"bad_file,omitempty"`
	Ms      int64    `json:"ms"` // informational only
}

type mfileIn struct {
	Path    string `json:"path"`
	Content string `json:"content"`
}

func vmapFor(mode string) map[string]ast.RegoVersion {
	switch mode {
	case "roots":
		return map[string]ast.RegoVersion{wsRoot + "/v0": ast.RegoV0, wsRoot + "/v1": ast.RegoV1}
	case "v0root":
		return map[string]ast.RegoVersion{wsRoot + "/v0": ast.RegoV0}
	}
	return nil
}

func cfgFor(mode, path string) ast.RegoVersion {
	vm := vmapFor(mode)
	best, ver := -1, ast.RegoUndefined
	for dir, v := range vm {
		if strings.HasPrefix(path, dir+"/") && len(dir) > best {
			best, ver = len(dir), v
		}
	}
	return ver
}

func runMulti(id int, src, mode string, rs []string, in []mfileIn) (c MultiCase) {
	t0 := time.Now()
	defer func() { c.Ms = time.Since(t0).Milliseconds() }()
	c = MultiCase{Kind: "multi", ID: id, Src: src, Mode: mode, Rules: rs}
	on := map[string]bool{}
	var long []string
	for _, r := range rs {
		on[r] = true
		long = append(long, ruleNames[r])
	}
	files := map[string]string{}
	sort.Slice(in, func(i, j int) bool { return in[i].Path < in[j].Path })
	c.ParseOK = true
	for _, f := range in {
		cfg := cfgFor(mode, f.Path)
		v0, ok := isV0File(f.Path, f.Content, cfg)
		if !ok {
			c.ParseOK = false
		}
		c.Files = append(c.Files, MFile{Path: f.Path, Content: b64(f.Content), Cfg: verName(cfg), V0: v0})
		files[f.Path] = f.Content
	}
	if !c.ParseOK || len(files) != len(in) {
		c.ParseOK = false
		return c
	}
	vs, err := lintOnce(context.Background(), files, long, vmapFor(mode))
	if err != nil {
		c.ParseOK = false
		c.ErrMsg = "lint: " + err.Error()
		return c
	}
	c.NViol = len(vs)
	final, _, iters, ec, em, applied, trace := runFixTrace(files, long, vmapFor(mode), 14, 120*time.Second)
	trace = append(trace, final)
	c.Iters, c.Err, c.ErrMsg = iters, ec, em
	if len(final) != len(files) {
		c.Pred = "file-set-changed"
		return c
	}
	for i := range c.Files {
		f := &c.Files[i]
		fin, ok := final[f.Path]
		if !ok {
			f.Pred = "file-set-changed"
		}
		f.Final = b64(fin)
		if ok && ec == "" {
			orig := files[f.Path]
			f.Pred = predicate(f.Path, orig, fin, f.V0, on)
			formatted := false
			for _, t := range applied[f.Path] {
				f.Applied = append(f.Applied, t)
				if t == "opa-fmt" || t == "use-rego-v1" {
					formatted = true
				}
			}
			if f.Pred == "" {
				cfg := verOf(f.Cfg)
				if f.V0 {
					cfg = ast.RegoV0 // the version the file has, also when it was detected
				}
				// every step the file went through: either OPA's formatter output for the file's version of what was
				// there before (a formatter fix was applied), or documented splices of the enabled text fixes
				f.FmtEq, f.Pred = stepsOracle(f.Path, cfg, trace, on)
				if f.Pred == "" && formatted && f.FmtEq == "" {
					f.Pred = "formatter-fix-reported-but-no-step-is-opa-fmt-output"
				}
			}
		}
		if c.Pred == "" {
			switch {
			case f.Pred != "":
				c.Pred, c.BadFile = f.Pred, f.Path
			case f.FmtEq == "neq" || f.FmtEq == "fmterr":
				c.Pred, c.BadFile = "fmt-oracle:"+f.FmtEq, f.Path
			}
		}
	}
	return c
}

// stepsOracle: the contents of one file as linted in iteration 1, 2, ... and at the end.  Returns ("eq" when at
// least one step was a formatter step and all of them were OPA's output | "", reason of the first bad step | "").
func stepsOracle(path string, cfg ast.RegoVersion, trace []map[string]string, on map[string]bool) (string, string) {
	fmtOn := on["fmt"] || on["v1"]
	textOn := map[string]bool{"uao": on["uao"], "nwc": on["nwc"], "nrr": on["nrr"]}
	eq := ""
	for k := 0; k+1 < len(trace); k++ {
		a, okA := trace[k][path]
		b, okB := trace[k+1][path]
		if !okA || !okB {
			return eq, fmt.Sprintf("step-%d-file-missing", k+1)
		}
		if a == b {
			continue
		}
		if fmtOn {
			if _, mv, err := parseAs(path, a, cfg); err == nil {
				if want, ok := formatFor(path, a, cfg, formatTarget(mv)); ok && want == b {
					eq = "eq"
					continue
				}
			}
		}
		al, bl := strings.Split(a, "\n"), strings.Split(b, "\n")
		text := (textOn["uao"] || textOn["nwc"] || textOn["nrr"]) && len(al) == len(bl)
		for i := 0; text && i < len(al); i++ {
			if al[i] != bl[i] && !explained(al[i], bl[i], textOn) {
				text = false
			}
		}
		if !text {
			if fmtOn {
				return "neq", fmt.Sprintf("step-%d-neither-opa-fmt-output-for-the-version-of-the-file-nor-documented-splices", k+1)
			}
			return eq, fmt.Sprintf("step-%d-not-documented-splices", k+1)
		}
	}
	return eq, ""
}

var multiRules = [][]string{
	{"fmt"}, {"fmt", "nwc"}, {"fmt", "uao"}, {"fmt", "nrr"}, {"fmt", "uao", "nwc", "nrr"}, {"fmt", "v1"},
	{"fmt", "uao", "nwc", "nrr", "v1"}, {"uao", "nwc", "nrr"}, {"fmt", "nwc", "v1"}, {"v1"},
}

// a rule only the v0 parser accepts / only the v1 parser accepts: the version of a generated file can be
// detected from its syntax
var v0Only = []string{"legacy[x] { x := 1 }", "old_style { input.a }", "deny[msg] {\n\tmsg := \"no\"\n}", "k[x] = y { x := 1; y := 2 }"}
var v1Only = []string{"modern contains x if x := 1", "new_style if input.a", "deny contains msg if {\n\tmsg := \"no\"\n}", "k[x] := y if { x := 1; y := 2 }"}

// lateFile: a module that needs ONE text fix and formatting: the text fix comes first (one rule per file and round),
// so opa-fmt gets to the file only in a later round than to the files that need nothing but formatting
func lateFile(v0 bool, rule string, i int) string {
	body := "deny contains msg if   msg := \"denied\"\n"
	if v0 {
		body = "deny[msg] { msg := \"denied\" }\n"
	}
	switch rule {
	case "nwc":
		return fmt.Sprintf("package late%d\n\n#comment without blank\n%s", i, body)
	case "uao":
		return fmt.Sprintf("package late%d\n\nlimit = 3\n\n%s", i, body)
	case "nrr":
		return fmt.Sprintf("package late%d\n\nok := regex.match(\"\\\\d+\", \"1\")\n\n%s", i, body)
	}
	return fmt.Sprintf("package late%d\n\n%s", i, body)
}

func earlyFile(v0 bool, i int) string {
	if v0 {
		return fmt.Sprintf("package early%d\n\nallow   { input.admin }\n", i)
	}
	return fmt.Sprintf("package early%d\n\nallow if   input.admin\n", i)
}

func multiCases(rng *hutil.Rng, tier string, add func(src, mode string, rs []string, in []mfileIn)) {
	modes := []string{"roots", "detect", "v0root"}
	pathFor := func(v0 bool, i int) string {
		d := "v1"
		if v0 {
			d = "v0"
		}
		return fmt.Sprintf("%s/%s/m%d/m%d.rego", wsRoot, d, i, i)
	}
	// structured family: a file that needs one text fix first (its formatting comes in a later round) next to a
	// file of the other version that needs nothing but formatting, for every text rule, both ways, every mode
	k := 0
	for _, rule := range []string{"nwc", "uao", "nrr"} {
		for _, lateV0 := range []bool{true, false} {
			for mi, mode := range modes {
				k++
				if tier == "quick" && (k+mi)%2 == 0 && !(rule == "nwc" && mode == "detect") {
					continue
				}
				in := []mfileIn{
					{pathFor(lateV0, 1), lateFile(lateV0, rule, 1)},
					{pathFor(!lateV0, 2), earlyFile(!lateV0, 2)},
				}
				if k%3 == 0 {
					in = append(in, mfileIn{pathFor(lateV0, 3), earlyFile(lateV0, 3)})
				}
				add("late:"+rule, mode, []string{"fmt", rule}, in)
			}
		}
	}
	// generated sets
	n := 14
	if tier != "quick" {
		n = 300
	}
	g := &gen{rng}
	for i := 0; i < n; i++ {
		mode := modes[i%3]
		rs := multiRules[rng.Below(len(multiRules))]
		if i < len(multiRules) {
			rs = multiRules[i]
		}
		sz := 2 + rng.Below(3)
		var in []mfileIn
		for j := 0; j < sz; j++ {
			v0 := j%2 == rng.Below(2)
			if j == 0 {
				v0 = true
			}
			if j == 1 {
				v0 = false
			}
			m := g.module(v0)
			crlf := strings.Contains(m, "\r\n")
			m = strings.ReplaceAll(m, "package p", fmt.Sprintf("package m%d", j))
			if !strings.HasSuffix(m, "\n") {
				m += "\n"
			}
			// make the version detectable from the syntax
			extra := hutil.Choice(rng, v1Only)
			if v0 {
				extra = hutil.Choice(rng, v0Only)
			}
			m += extra + "\n"
			if crlf {
				m = strings.ReplaceAll(strings.ReplaceAll(m, "\r\n", "\n"), "\n", "\r\n")
			}
			in = append(in, mfileIn{pathFor(v0, j), m})
		}
		add("gen", mode, rs, in)
	}
}
