// C11 harness: drives the three text fixes of pkg/fixer/fixes directly on generated
// (content, location) pairs, and the whole Fixer.Fix loop on generated modules; prints what the
// implementation did (one JSON object per line) together with the verdict of the property
// predicate computed here, independently of the Coq model:
//
//	the fixed module parses, its AST equals the original's modulo locations and the documented
//	effects (head `=` became `:=`, comments gained a leading blank, nothing else: string values
//	are compared exactly), every changed line is explained byte for byte by documented splices,
//	and with only opa-fmt enabled the result equals format.Source of the original.
//
// usage: c11 <out.jsonl> <quick|thorough> <corpus-dir|-> [replay.json]
package main

import (
	"context"
	"encoding/base64"
	"encoding/json"
	"errors"
	"fmt"
	"os"
	"path/filepath"
	"runtime"
	"sort"
	"strings"
	"sync"
	"time"
	"unicode/utf8"

	"github.com/open-policy-agent/opa/v1/ast"
	"github.com/open-policy-agent/opa/v1/format"

	"github.com/styrainc/regal/pkg/fixer"
	"github.com/styrainc/regal/pkg/fixer/fileprovider"
	"github.com/styrainc/regal/pkg/fixer/fixes"
	"github.com/styrainc/regal/pkg/linter"
	"github.com/styrainc/regal/pkg/report"
	"github.com/styrainc/regal/pkg/rules"

	"verifharness/hutil"
)

func b64(s string) string { return base64.StdEncoding.EncodeToString([]byte(s)) }

// ------------------------------------------------------------------------------------ unit level

type Loc struct {
	Row  int  `json:"row"`
	Col  int  `json:"col"`
	ERow int  `json:"erow"`
	ECol int  `json:"ecol"`
	NoE  bool `json:"noend,omitempty"`
}

type UnitCase struct {
	Kind    string `json:"kind"`
	Fix     string `json:"fix"`
	Content string `json:"content"` // base64
	Locs    []Loc  `json:"locs"`
	Status  string `json:"status"` // none | changed | panic | error
	Out     string `json:"out"`    // base64 (when changed)
	Src     string `json:"src"`    // which generator
	Pred    string `json:"pred"`   // "" when the unit-level predicate holds
}

// the instances regal fix registers, once per run (fixes.NewDefaultFixes): every unit call of the run goes
// through the same instance, as every file of a fixer run does; state kept between calls would show up as
// a disagreement with the (stateless) model of the three text fixes
var sharedFixes = func() map[string]fixes.Fix {
	m := map[string]fixes.Fix{}
	for _, f := range fixes.NewDefaultFixes() {
		m[f.Name()] = f
	}
	return m
}()

func fixByName(n string) fixes.Fix {
	if f, ok := sharedFixes[ruleNames[n]]; ok {
		return f
	}
	panic(n)
}

func runUnit(fix, content string, locs []Loc, src string) (uc UnitCase) {
	uc = UnitCase{Kind: "unit", Fix: fix, Content: b64(content), Locs: locs, Src: src}
	defer func() {
		if r := recover(); r != nil {
			uc.Status = "panic"
			uc.Out = ""
		}
	}()
	var rl []report.Location
	for _, l := range locs {
		x := report.Location{Row: l.Row, Column: l.Col}
		if !l.NoE {
			x.End = &report.Position{Row: l.ERow, Column: l.ECol}
		}
		rl = append(rl, x)
	}
	res, err := fixByName(fix).Fix(&fixes.FixCandidate{Filename: "p.rego", Contents: content},
		&fixes.RuntimeOptions{BaseDir: "/", Locations: rl})
	switch {
	case err != nil:
		uc.Status = "error"
	case len(res) == 0:
		uc.Status = "none"
	default:
		uc.Status = "changed"
		uc.Out = b64(res[0].Contents)
		uc.Pred = unitPredicate(fix, content, res[0].Contents, locs)
	}
	return uc
}

// unitPredicate: the property on one call of a fix, checked on the implementation's output alone:
// same number of lines, only rows named by a location differ, and every differing row is the old row
// with documented splices of that fix only.
func unitPredicate(fix, in, out string, locs []Loc) string {
	il, ol := strings.Split(in, "\n"), strings.Split(out, "\n")
	if len(il) != len(ol) {
		return "line-count"
	}
	rows := map[int]bool{}
	for _, l := range locs {
		rows[l.Row] = true
	}
	allow := map[string]bool{fix: true}
	changed := false
	for i := range il {
		if il[i] == ol[i] {
			continue
		}
		changed = true
		if !rows[i+1] {
			return fmt.Sprintf("row-%d-changed-without-location", i+1)
		}
		if !explained(il[i], ol[i], allow) {
			return fmt.Sprintf("row-%d-not-explained", i+1)
		}
		if len(locs) == 1 && !spliceAtColumn(fix, il[i], ol[i], locs[0].Col) {
			return fmt.Sprintf("row-%d-splice-not-at-the-character-column", i+1)
		}
	}
	if !changed {
		return "reported-change-without-change"
	}
	return ""
}

// spliceAtColumn: columns of locations count characters (as the parser does), so the documented splice of the
// fix starts at the byte where the col-th character of the old line starts
func spliceAtColumn(fix, old, new string, col int) bool {
	if col < 1 {
		return false
	}
	p := 0
	for n := 1; n < col; n++ {
		if p >= len(old) {
			return false
		}
		_, sz := utf8.DecodeRuneInString(old[p:]) // an invalid byte is one character of one byte
		p += sz
	}
	switch fix {
	case "uao":
		return p < len(old) && old[p] == '=' && new == old[:p]+":"+old[p:]
	case "nwc":
		return p < len(old) && old[p] == '#' && new == old[:p+1]+" "+old[p+1:]
	case "nrr":
		return p < len(old) && p < len(new) && old[p] == '"' && new[p] == '`' && old[:p] == new[:p]
	}
	return false
}

// lines used by the unit generator: every interesting neighbourhood of '=', '#', quotes, escapes,
// multi-byte text, CR, invalid UTF-8
var unitLines = []string{
	``, `x = 1`, `x=1`, `f("a=b") = 1`, `x := 1`, `x == y`, `= =`, `=`, `a = b = c`,
	"f(\"\u00e9\") = 1", "f(\"\u00e9\u00e9\u00e9=\")=1", "\u00e9=\u00e9 = 2", "x = 1\r", "\r", "=\r",
	`#foo`, `# foo`, `#`, `##x`, `x := 1 #c`, `x := "a#b" #c`, "x := \"\u00e9\u00e9#\"#c", "#\u00e9", "#\r", "#x\r", `"#"#`,
	`regex.match("[0-9]+", x)`, `regex.match("\\d", x)`, `regex.match("a\\\\b", x)`, "regex.match(\"\u00e9\\\\d\", x)",
	"regex.match(\"\\\\d`\", x)", `regex.match("\\d\n\"", x)`, `"\\"`, `""`, `"`, `"\\\\\\"`, `"a" "b"`, "`raw`", `"\\d" == "\\e"`, "\"\\\\d\"\r",
	"\xff=\xfe#\"", "a\xc3=", "\"\xe9\\\\\"",
	// characters outside of the BMP (one character, four bytes, two UTF-16 code units) before the column
	"f(\"\U0001F600\U0001F600\U0001F600=\")=1", "y := \"\U0001D11E\u00e9#\"#c", "y := \"\U0001F600\U0001F600#\"#c",
	"regex.replace(\"\U00010348\U00010348\",\"\\\\d\", x)", "regex.replace(\"\U0001F600\u65e5\", \"\\\\d\", x)",
	"#\U0001F600x", "\U0001F600=\U0001F600 = 2", "g(\"\U0001F511=\u65e5\U0002070E=x\") = 1 #\U0001F600",
}

func unitCases(rng *hutil.Rng, tier string, emit func(UnitCase)) {
	fixesN := []string{"uao", "nwc", "nrr"}
	// exhaustive: one line (optionally surrounded by other lines), every column around it
	for li, line := range unitLines {
		content := "package p\n" + line + "\nlast"
		if li%3 == 1 {
			content = line
		}
		if li%3 == 2 {
			content = line + "\n"
		}
		row := 2
		if li%3 != 0 {
			row = 1
		}
		nr := len([]rune(line))
		for _, fx := range fixesN {
			if fx != "nrr" {
				for col := -1; col <= len(line)+2; col++ {
					emit(runUnit(fx, content, []Loc{{Row: row, Col: col, ERow: row, ECol: col + 1}}, "exh"))
				}
				continue
			}
			// nrr: start/end pairs; all pairs for short lines, interesting pairs otherwise
			for col := -1; col <= nr+2; col++ {
				for ecol := col - 1; ecol <= nr+4; ecol++ {
					if nr > 8 && tier == "quick" {
						// only pairs that touch a quote or the line end
						rs := []rune(line)
						touch := func(i int) bool { return i >= 0 && i < len(rs) && (rs[i] == '"' || rs[i] == '`') }
						if !(touch(col-1) || touch(ecol-2) || ecol-2 >= nr-1 || col <= 0) || (col+ecol)%3 != 0 {
							continue
						}
					}
					emit(runUnit(fx, content, []Loc{{Row: row, Col: col, ERow: row, ECol: ecol}}, "exh"))
				}
			}
		}
	}
	// rows out of range, missing end position, no locations, several locations
	for _, fx := range fixesN {
		c := "x = 1 #c\n" + `regex.match("\\d", x)`
		for _, row := range []int{-1, 0, 1, 2, 3, 4} {
			emit(runUnit(fx, c, []Loc{{Row: row, Col: 3, ERow: row, ECol: 4}}, "rows"))
			emit(runUnit(fx, c, []Loc{{Row: row, Col: 13, ERow: row, ECol: 18}}, "rows"))
		}
		emit(runUnit(fx, c, nil, "nolocs"))
		emit(runUnit(fx, "", nil, "nolocs"))
		emit(runUnit(fx, "", []Loc{{Row: 1, Col: 1, ERow: 1, ECol: 2}}, "empty"))
		if fx != "nrr" { // nrr dereferences End
			emit(runUnit(fx, c, []Loc{{Row: 1, Col: 3, NoE: true}}, "noend"))
			emit(runUnit(fx, c, []Loc{{Row: 1, Col: 7, NoE: true}}, "noend"))
		}
	}
	n := 300
	if tier != "quick" {
		n = 6000
	}
	for i := 0; i < n; i++ {
		nl := 1 + rng.Below(3)
		var ls []string
		for j := 0; j < nl; j++ {
			ls = append(ls, hutil.Choice(rng, unitLines))
		}
		sep := "\n"
		if rng.Below(5) == 0 {
			sep = "\r\n"
		}
		content := strings.Join(ls, sep)
		fx := hutil.Choice(rng, fixesN)
		var locs []Loc
		for k := 0; k < 1+rng.Below(3); k++ {
			row := 1 + rng.Below(nl)
			if rng.Below(10) == 0 {
				row = rng.Below(nl+3) - 1
			}
			ln := ""
			if row >= 1 && row <= nl {
				ln = ls[row-1]
			}
			col := rng.Below(len(ln)+3) - 1
			// bias towards the interesting characters
			if idx := strings.IndexAny(ln, "=#\""); idx >= 0 && rng.Below(3) > 0 {
				all := []int{}
				for p, ch := range []rune(ln) {
					if ch == '=' || ch == '#' || ch == '"' {
						all = append(all, p+1)
					}
				}
				col = hutil.Choice(rng, all)
			}
			ecol := col + 1 + rng.Below(len(ln)+2)
			if fx == "nrr" && rng.Below(2) == 0 {
				// end at the next quote
				rs := []rune(ln)
				for p := max(col, 0); p < len(rs); p++ {
					if rs[p] == '"' {
						ecol = p + 2
						break
					}
				}
			}
			locs = append(locs, Loc{Row: row, Col: col, ERow: row, ECol: ecol})
		}
		emit(runUnit(fx, content, locs, "rand"))
	}
}

// ------------------------------------------------------------------------------------ end to end

var ruleNames = map[string]string{
	"uao": "use-assignment-operator", "nwc": "no-whitespace-comment", "nrr": "non-raw-regex-pattern",
	"fmt": "opa-fmt", "v1": "use-rego-v1",
}

type Viol struct {
	Title string `json:"title"`
	Row   int    `json:"row"`
	Col   int    `json:"col"`
	ERow  int    `json:"erow"`
	ECol  int    `json:"ecol"`
	File  string `json:"file,omitempty"`
}

type Head struct {
	Row    int  `json:"row"`  // row of the head
	Col    int  `json:"col"`  // column of the head
	VRow   int  `json:"vrow"` // row/col of the head's value term (0 when it has none or it is generated)
	VCol   int  `json:"vcol"`
	Assign bool `json:"assign"`
}

type E2ECase struct {
	Kind     string   `json:"kind"`
	ID       int      `json:"id"`
	Src      string   `json:"src"`
	Content  string   `json:"content"` // base64
	V0       bool     `json:"v0"`
	Rules    []string `json:"rules"` // short names
	ParseOK  bool     `json:"parse_ok"`
	Viol     []Viol   `json:"viol"`     // first lint, in the order the linter returned them
	Heads    []Head   `json:"heads"`    // every rule head (incl. else) of the original
	Comments [][2]int `json:"comments"` // (row, col) of every comment of the original, from the parser
	Strings  [][3]int `json:"strings"`  // (row, col, raw) of every one-row string term, from the parser
	Iters    int      `json:"iters"`
	Err      string   `json:"err"` // "", deadline, itercap, parse, other
	ErrMsg   string   `json:"errmsg,omitempty"`
	Iter1    string   `json:"iter1"`  // base64: content seen by the second lint (== final when there was none)
	Final    string   `json:"final"`  // base64
	Pred     string   `json:"pred"`   // "" when the predicate holds, else the reason
	FmtEq    string   `json:"fmt_eq"` // for fmt-only runs: "", "eq", "neq", "fmterr"
	Ms       int64    `json:"ms"`     // informational only
}

// counting provider: one ToInput call per iteration of applyLinterFixes; refuses to go on after cap
type countingFP struct {
	*fileprovider.InMemoryFileProvider
	iters    int
	cap      int
	snapshot map[int]map[string]string
	files    func() map[string]string
}

var errIterCap = errors.New("verif: iteration cap reached")

func (c *countingFP) ToInput(vm map[string]ast.RegoVersion) (rules.Input, error) {
	c.iters++
	c.snapshot[c.iters] = c.files() // the contents linted in this iteration
	if c.iters > c.cap {
		return rules.Input{}, errIterCap
	}
	return c.InMemoryFileProvider.ToInput(vm)
}

const wsRoot = "/ws"

func fileFor(v0 bool) string {
	if v0 {
		return wsRoot + "/v0/p/p.rego"
	}
	return wsRoot + "/p/p.rego"
}

var versions = map[string]ast.RegoVersion{"v0": ast.RegoV0}

func vmapAbs() map[string]ast.RegoVersion {
	return map[string]ast.RegoVersion{wsRoot + "/v0": ast.RegoV0}
}

func parserOpts(v0 bool) ast.ParserOptions {
	o := ast.ParserOptions{ProcessAnnotation: true}
	if v0 {
		o.RegoVersion = ast.RegoV0
	} else {
		o.RegoVersion = ast.RegoV1
	}
	return o
}

func parseMod(file, content string, v0 bool) (*ast.Module, error) {
	return ast.ParseModuleWithOpts(file, content, parserOpts(v0))
}

func lintOnce(ctx context.Context, files map[string]string, rulesOn []string, vmap map[string]ast.RegoVersion) ([]Viol, error) {
	fp := fileprovider.NewInMemoryFileProvider(copyMap(files))
	in, err := fp.ToInput(vmap)
	if err != nil {
		return nil, err
	}
	l := linter.NewLinter().WithDisableAll(true).WithEnabledRules(rulesOn...).WithInputModules(&in)
	rep, err := l.Lint(ctx)
	if err != nil {
		return nil, err
	}
	var vs []Viol
	for _, v := range rep.Violations {
		x := Viol{Title: v.Title, Row: v.Location.Row, Col: v.Location.Column}
		if v.Location.End != nil {
			x.ERow, x.ECol = v.Location.End.Row, v.Location.End.Column
		}
		x.File = v.Location.File
		vs = append(vs, x)
	}
	return vs, nil
}

func copyMap(m map[string]string) map[string]string {
	o := make(map[string]string, len(m))
	for k, v := range m {
		o[k] = v
	}
	return o
}

func runFix(files map[string]string, rulesOn []string, vmap map[string]ast.RegoVersion, capIters int, deadline time.Duration) (final map[string]string, snap2 map[string]string, iters int, errClass, errMsg string) {
	final, snap2, iters, errClass, errMsg, _ = runFixReport(files, rulesOn, vmap, capIters, deadline)
	return
}

// runFixReport: as runFix, also returning the titles of the fixes Fixer.Fix says it applied, per file
func runFixReport(files map[string]string, rulesOn []string, vmap map[string]ast.RegoVersion, capIters int, deadline time.Duration) (final map[string]string, snap2 map[string]string, iters int, errClass, errMsg string, applied map[string][]string) {
	final, snap2, iters, errClass, errMsg, applied, _ = runFixTrace(files, rulesOn, vmap, capIters, deadline)
	return
}

// runFixTrace: as runFixReport, also returning the contents linted in every iteration (trace[0] = the original)
func runFixTrace(files map[string]string, rulesOn []string, vmap map[string]ast.RegoVersion, capIters int, deadline time.Duration) (final map[string]string, snap2 map[string]string, iters int, errClass, errMsg string, applied map[string][]string, trace []map[string]string) {
	mem := fileprovider.NewInMemoryFileProvider(copyMap(files))
	cfp := &countingFP{InMemoryFileProvider: mem, cap: capIters, snapshot: map[int]map[string]string{}}
	cfp.files = func() map[string]string {
		o := map[string]string{}
		ls, _ := mem.List()
		for _, f := range ls {
			c, _ := mem.Get(f)
			o[f] = c
		}
		return o
	}
	ctx, cancel := context.WithTimeout(context.Background(), deadline)
	defer cancel()
	l := linter.NewLinter().WithDisableAll(true).WithEnabledRules(rulesOn...)
	f := fixer.NewFixer()
	f.RegisterFixes(fixes.NewDefaultFixes()...)
	f.RegisterRoots(wsRoot)
	if vmap != nil {
		f.SetRegoVersionsMap(vmap)
	}
	type res struct {
		err error
		rep *fixer.Report
	}
	done := make(chan res, 1)
	go func() {
		defer func() {
			if r := recover(); r != nil {
				done <- res{fmt.Errorf("panic: %v", r), nil}
			}
		}()
		rep, err := f.Fix(ctx, &l, cfp)
		done <- res{err, rep}
	}()
	var err error
	select {
	case r := <-done:
		err = r.err
		applied = map[string][]string{}
		if r.rep != nil {
			for _, file := range r.rep.FixedFiles() {
				for _, fr := range r.rep.FixesForFile(file) {
					applied[file] = append(applied[file], fr.Title)
				}
			}
		}
	case <-time.After(deadline + 30*time.Second):
		return cfp.files(), cfp.snapshot[2], cfp.iters, "deadline", "hard deadline", nil, nil
	}
	for k := 1; k <= cfp.iters; k++ {
		if sn, ok := cfp.snapshot[k]; ok {
			trace = append(trace, sn)
		}
	}
	final = cfp.files()
	snap2 = cfp.snapshot[2]
	if snap2 == nil {
		snap2 = final
	}
	iters = cfp.iters
	if err != nil {
		errMsg = err.Error()
		switch {
		case errors.Is(err, errIterCap) || strings.Contains(errMsg, "iteration cap reached"):
			errClass = "itercap"
		case errors.Is(err, context.DeadlineExceeded) || strings.Contains(errMsg, "deadline"):
			errClass = "deadline"
		case strings.Contains(errMsg, "panic:"):
			errClass = "panic"
		case strings.Contains(errMsg, "rego_parse_error") || strings.Contains(errMsg, "failed to parse"):
			errClass = "parse"
		default:
			errClass = "other"
		}
		if len(errMsg) > 300 {
			errMsg = errMsg[:300]
		}
	}
	return
}

// ---- the predicate ---------------------------------------------------------------------------

func setAssign(m *ast.Module) {
	var walk func(r *ast.Rule)
	walk = func(r *ast.Rule) {
		for r != nil {
			r.Head.Assign = true
			r = r.Else
		}
	}
	for _, r := range m.Rules {
		walk(r)
	}
}

func collectHeads(m *ast.Module) []Head {
	var hs []Head
	for _, r := range m.Rules {
		for x := r; x != nil; x = x.Else {
			h := Head{Assign: x.Head.Assign}
			if x.Head.Location != nil {
				h.Row, h.Col = x.Head.Location.Row, x.Head.Location.Col
			}
			if x.Head.Value != nil && x.Head.Value.Location != nil {
				h.VRow, h.VCol = x.Head.Value.Location.Row, x.Head.Value.Location.Col
			}
			hs = append(hs, h)
		}
	}
	return hs
}

// explained: is line g obtainable from line o by documented splices only?
//   - insert ':' directly before an '=' (use-assignment-operator)
//   - insert ' ' directly after a '#' (no-whitespace-comment)
//   - replace '"' by '`' (non-raw-regex-pattern)
//   - delete a '\' that is directly followed by another '\' (non-raw-regex-pattern)
func explained(o, g string, allow map[string]bool) bool {
	type key struct{ i, j int }
	memo := map[key]bool{}
	var rec func(i, j int) bool
	rec = func(i, j int) bool {
		if i == len(o) && j == len(g) {
			return true
		}
		k := key{i, j}
		if v, ok := memo[k]; ok {
			return v
		}
		r := false
		if i < len(o) && j < len(g) && o[i] == g[j] {
			r = rec(i+1, j+1)
		}
		if !r && allow["uao"] && j < len(g) && g[j] == ':' && i < len(o) && o[i] == '=' && j+1 < len(g) && g[j+1] == '=' {
			r = rec(i, j+1)
		}
		if !r && allow["nwc"] && j < len(g) && g[j] == ' ' && afterHash(g, j) && i > 0 && o[i-1] == '#' {
			r = rec(i, j+1)
		}
		if !r && allow["nrr"] && i < len(o) && j < len(g) && o[i] == '"' && g[j] == '`' {
			r = rec(i+1, j+1)
		}
		if !r && allow["nrr"] && i+1 < len(o) && o[i] == '\\' && o[i+1] == '\\' {
			r = rec(i+1, j)
		}
		memo[k] = r
		return r
	}
	return rec(0, 0)
}

// afterHash: position j of g follows a '#' with nothing but blanks inserted in between
func afterHash(g string, j int) bool {
	k := j - 1
	for k >= 0 && g[k] == ' ' {
		k--
	}
	return k >= 0 && g[k] == '#'
}

func commentTexts(m *ast.Module) []string {
	var o []string
	for _, c := range m.Comments {
		o = append(o, string(c.Text))
	}
	return o
}

func hasRegoV1Import(m *ast.Module) bool {
	for _, i := range m.Imports {
		if i.Path.String() == "data.rego.v1" || strings.HasSuffix(i.Path.String(), "rego.v1") {
			return true
		}
	}
	return false
}

func predicate(file, orig, final string, v0 bool, on map[string]bool) string {
	if orig == final {
		return ""
	}
	om, err := parseMod(file, orig, v0)
	if err != nil {
		return "orig-unparsable"
	}
	fm, err := parseMod(file, final, v0)
	if err != nil {
		return "result-does-not-parse"
	}
	fmtOn := on["fmt"] || on["v1"]
	// documented effects on the AST
	oc, fc := om.Copy(), fm.Copy()
	if on["uao"] || fmtOn {
		setAssign(oc)
		setAssign(fc)
	}
	if fmtOn && !hasRegoV1Import(oc) && hasRegoV1Import(fc) {
		// formatting a v0 module adds `import rego.v1`, which replaces the future.keywords imports
		strip := func(m *ast.Module) {
			var imps []*ast.Import
			for _, i := range m.Imports {
				ps := i.Path.String()
				if !strings.HasSuffix(ps, "rego.v1") && !strings.HasPrefix(ps, "future.keywords") {
					imps = append(imps, i)
				}
			}
			m.Imports = imps
		}
		strip(oc)
		strip(fc)
	}
	if !oc.Equal(fc) {
		return "ast-differs"
	}
	// string terms: Equal compares values, so a raw string must denote the same value. Comments:
	ot, ft := commentTexts(om), commentTexts(fm)
	if fmtOn {
		sort.Strings(ot)
		sort.Strings(ft)
	}
	if len(ot) != len(ft) {
		return "comment-count"
	}
	if fmtOn {
		// multiset comparison modulo the leading blank
		norm := func(xs []string) []string {
			var o []string
			for _, x := range xs {
				o = append(o, strings.TrimPrefix(x, " "))
			}
			sort.Strings(o)
			return o
		}
		a, b := norm(ot), norm(ft)
		for i := range a {
			if a[i] != b[i] && !(on["nwc"]) {
				return "comment-text"
			}
			if a[i] != b[i] {
				return "comment-text"
			}
		}
	} else {
		for i := range ot {
			if ot[i] == ft[i] {
				continue
			}
			if on["nwc"] && ft[i] == " "+ot[i] {
				continue
			}
			return "comment-text"
		}
	}
	if !fmtOn {
		ol, fl := strings.Split(orig, "\n"), strings.Split(final, "\n")
		if len(ol) != len(fl) {
			return "line-count"
		}
		for i := range ol {
			if ol[i] != fl[i] && !explained(ol[i], fl[i], on) {
				return fmt.Sprintf("line-%d-not-explained", i+1)
			}
		}
	}
	return ""
}

func runE2E(id int, src, content string, v0 bool, rs []string) (c E2ECase) {
	t0 := time.Now()
	defer func() { c.Ms = time.Since(t0).Milliseconds() }()
	c = E2ECase{Kind: "e2e", ID: id, Src: src, Content: b64(content), V0: v0, Rules: rs}
	file := fileFor(v0)
	om, err := parseMod(file, content, v0)
	if err != nil {
		return c
	}
	c.ParseOK = true
	c.Heads = collectHeads(om)
	for _, cm := range om.Comments {
		if cm.Location != nil {
			c.Comments = append(c.Comments, [2]int{cm.Location.Row, cm.Location.Col})
		}
	}
	ast.WalkTerms(om, func(t *ast.Term) bool {
		if _, ok := t.Value.(ast.String); ok && t.Location != nil && len(t.Location.Text) > 0 &&
			!strings.Contains(string(t.Location.Text), "\n") {
			raw := 0
			if t.Location.Text[0] == '`' {
				raw = 1
			} else if t.Location.Text[0] != '"' {
				return false // generated term (e.g. the key of a ref head written with a dot)
			}
			c.Strings = append(c.Strings, [3]int{t.Location.Row, t.Location.Col, raw})
		}
		return false
	})
	on := map[string]bool{}
	var long []string
	for _, r := range rs {
		on[r] = true
		long = append(long, ruleNames[r])
	}
	files := map[string]string{file: content}
	ctx := context.Background()
	vs, err := lintOnce(ctx, files, long, vmapAbs())
	if err != nil {
		c.ParseOK = false // not lintable as the fixer would see it
		c.ErrMsg = "lint: " + err.Error()
		return c
	}
	c.Viol = vs
	final, snap2, iters, ec, em := runFix(files, long, vmapAbs(), 12, 120*time.Second)
	c.Iters, c.Err, c.ErrMsg = iters, ec, em
	c.Final = b64(final[file])
	c.Iter1 = b64(snap2[file])
	if _, ok := final[file]; !ok || len(final) != 1 {
		c.Pred = "file-set-changed"
		return c
	}
	if ec == "" {
		c.Pred = predicate(file, content, final[file], v0, on)
		if len(rs) == 1 && rs[0] == "fmt" && len(vs) > 0 {
			c.FmtEq = fmtExpect(file, content, final[file], v0)
		}
	}
	return c
}

// fmtExpect: the oracle clause of the property for opa-fmt: the fixed file is what OPA's formatter makes of the
// original (iterated until it no longer changes: the formatter is not idempotent on raw strings in else heads)
func fmtExpect(file, content, final string, v0 bool) string {
	opts := format.Opts{RegoVersion: ast.RegoV1}
	if v0 {
		opts.RegoVersion = ast.RegoV0CompatV1
	}
	po := ast.ParserOptions{RegoVersion: parserOpts(v0).RegoVersion}
	opts.ParserOptions = &po
	cur := content
	for k := 0; k < 5; k++ {
		exp, err := format.SourceWithOpts(file, []byte(cur), opts)
		if err != nil {
			return "fmterr"
		}
		if string(exp) == cur {
			break
		}
		cur = string(exp)
	}
	if cur == final {
		return "eq"
	}
	return "neq"
}

// ---- module generator -----------------------------------------------------------------------

var strPool = []string{
	`"a"`, `"a=b"`, `"x # y"`, "\"\u00e9\"", "\"\u00e9\u00e9\u00e9=\"", "\"\u00e9\u00e9#\"", `"=\"q\"="`, `"a:=b"`, `"=="`,
	"`raw=`", "`#r`", "\"\u65e5\u672c=\u8a9e\"", `"#"`, `"\\"`, `"= #"`, "\"\U0001F600=\"",
}
var patPool = []string{
	`"[0-9]+"`, `"\\d+"`, `"a\\\\b"`, `"\""`, `"\\d\n"`, `"\t\\s"`, "\"\\u00e9\\\\d\"", "\"\\\\d`\"", "\"\u00e9\\\\d\"", `""`, `"\\\\"`,
	"`\\d`", `"=\\d#"`, `"\\."`, `"\\\\\\d"`, `"a\\/b"`, `"\\b"`,
}
var names = []string{"f", "g", "allow", "deny", "p1", "q"}
var comments = []string{"#foo", "# ok", "#", "##", "##x", "#\u00e9", "#=", "#\"", "#a = b", "#\t tab", "# regal ignore:use-assignment-operator", "#!x", "#  two"}

type gen struct{ r *hutil.Rng }

func (g *gen) str() string { return hutil.Choice(g.r, strPool) }

func (g *gen) val() string {
	switch g.r.Below(9) {
	case 0:
		return "1"
	case 1:
		return g.str()
	case 2:
		return "true"
	case 3:
		return "input.x"
	case 4:
		return "[1, " + g.str() + "]"
	case 5:
		return "{" + g.str() + ": 1}"
	case 6:
		return "count(" + g.str() + ")"
	case 7:
		return "{x | x = " + g.str() + "}"
	}
	return g.str()
}

func (g *gen) constVal() string {
	switch g.r.Below(4) {
	case 0:
		return "1"
	case 1:
		return g.str()
	case 2:
		return "[" + g.str() + "]"
	}
	return "false"
}

func (g *gen) eq() string {
	return hutil.Choice(g.r, []string{" = ", "=", " =", "= ", "  =  ", "\t=\t", " = ", " = ", " := ", ":="})
}

func (g *gen) regexCall() string {
	p := hutil.Choice(g.r, patPool)
	switch g.r.Below(5) {
	case 0:
		return "regex.match(" + p + ", " + g.str() + ")"
	case 1:
		return "regex.replace(" + g.str() + ", " + p + ", \"r\")"
	case 2:
		return "regex.globs_match(" + p + ", " + hutil.Choice(g.r, patPool) + ")"
	case 3:
		return "not regex.is_valid(" + p + ")"
	}
	return "regex.split(" + p + ", input.s)"
}

func (g *gen) expr() string {
	switch g.r.Below(6) {
	case 0:
		return "input.x == 1"
	case 1:
		return "y = " + g.str()
	case 2, 3:
		return g.regexCall()
	case 4:
		return "z := " + g.val()
	}
	return "input.y != " + g.str()
}

func (g *gen) trail() string {
	if g.r.Below(4) == 0 {
		sp := hutil.Choice(g.r, []string{" ", "", "  ", "\t"})
		return sp + hutil.Choice(g.r, comments)
	}
	return ""
}

func (g *gen) body(v0 bool) string {
	n := 1 + g.r.Below(3)
	var es []string
	for i := 0; i < n; i++ {
		es = append(es, g.expr())
	}
	if g.r.Below(3) == 0 {
		return "{ " + strings.Join(es, "; ") + " }" + g.trail()
	}
	s := "{" + g.trail() + "\n"
	for _, e := range es {
		s += "\t" + e + g.trail() + "\n"
		if g.r.Below(6) == 0 {
			s += "\t" + hutil.Choice(g.r, comments) + "\n"
		}
	}
	return s + "}"
}

func (g *gen) rule(v0 bool, i int) string {
	n := fmt.Sprintf("%s%d", hutil.Choice(g.r, names), i)
	iff := " if "
	if v0 {
		iff = " "
	}
	switch g.r.Below(14) {
	case 0:
		return n + g.eq() + g.val() + g.trail()
	case 1:
		return n + "(" + g.str() + ")" + g.eq() + g.val() + g.trail()
	case 2:
		return n + "(x, " + g.str() + ")" + g.eq() + g.val() + g.trail()
	case 3:
		return n + "[" + g.str() + "]" + g.eq() + g.val() + g.trail()
	case 4:
		return "default " + n + g.eq() + g.constVal() + g.trail()
	case 5:
		return "default " + n + "(_)" + g.eq() + g.constVal() + g.trail()
	case 6:
		return n + "(x)" + g.eq() + g.val() + iff + g.body(v0) + " else" + g.eq() + g.val() + iff + g.body(v0)
	case 7:
		return n + g.eq() + g.val() + iff + g.body(v0)
	case 8:
		return n + ".a[" + g.str() + "]" + g.eq() + g.val() + g.trail()
	case 9:
		// multi-line heads
		switch g.r.Below(3) {
		case 0:
			return n + "(\n\t" + g.str() + ")" + g.eq() + g.val()
		case 1:
			return n + " =\n\t" + g.val()
		}
		return n + "(x) = y" + iff + "{\n\ty := " + g.val() + "\n}"
	case 10:
		return n + iff + g.body(v0)
	case 11:
		if v0 {
			return n + "[x] { x := " + g.val() + " }"
		}
		return n + " contains x if { x := " + g.val() + " }"
	case 12:
		if g.r.Below(3) == 0 {
			// a chain of else branches on one line, mixing = and :=
			return n + "(x)" + g.eq() + g.val() + iff + "{ x == 1 } else" + g.eq() + g.val() + iff + "{ x == 2 } else" + g.eq() + g.val()
		}
		return n + "(x)" + g.eq() + g.val() + iff + "{ x == 1 } else" + g.eq() + g.val()
	}
	return n + "[x]" + g.eq() + "y" + iff + "{ x := 1; y := " + g.val() + " }"
}

func (g *gen) module(v0 bool) string {
	var b strings.Builder
	if g.r.Below(5) == 0 {
		b.WriteString(hutil.Choice(g.r, comments) + "\n")
	}
	b.WriteString("package p" + g.trail() + "\n\n")
	if g.r.Below(6) == 0 {
		b.WriteString("import data.lib" + g.trail() + "\n\n")
	}
	if v0 && g.r.Below(3) == 0 {
		b.WriteString("import future.keywords.in\n\n")
	}
	n := 1 + g.r.Below(4)
	for i := 0; i < n; i++ {
		if g.r.Below(4) == 0 {
			b.WriteString(hutil.Choice(g.r, comments) + "\n")
		}
		b.WriteString(g.rule(v0, i) + "\n")
		if g.r.Below(2) == 0 {
			b.WriteString("\n")
		}
	}
	s := b.String()
	if g.r.Below(8) == 0 {
		s = strings.TrimRight(s, "\n")
	}
	if g.r.Below(6) == 0 {
		s = strings.ReplaceAll(s, "\n", "\r\n")
	}
	return s
}

var ruleSubsets = [][]string{
	{"uao"}, {"nwc"}, {"nrr"}, {"fmt"}, {"uao", "nwc", "nrr"}, {"uao", "nwc"}, {"uao", "nrr"}, {"nwc", "nrr"},
	{"uao", "nwc", "nrr", "fmt"}, {"fmt", "v1"}, {"uao", "fmt"}, {"uao", "nwc", "nrr", "fmt", "v1"},
}

type job struct {
	id  int
	run func(id int) any
}

type corpusCase struct {
	Content string    `json:"content"`
	V0      bool      `json:"v0"`
	Rules   []string  `json:"rules"`
	Name    string    `json:"name"`
	Files   []mfileIn `json:"files,omitempty"` // a file set (then Mode says how versions are determined)
	Mode    string    `json:"mode,omitempty"`
}

func main() {
	if len(os.Args) < 4 {
		fmt.Fprintln(os.Stderr, "usage: c11 <out.jsonl> <quick|thorough> <corpus-dir|-> [replay.json]")
		os.Exit(2)
	}
	out := hutil.NewOut(os.Args[1])
	defer out.Close()
	tier := os.Args[2]
	rng := hutil.NewRng(hutil.SeedFromEnv())

	var jobs []job
	add := func(src, content string, v0 bool, rs []string) {
		jobs = append(jobs, job{len(jobs), func(id int) any { return runE2E(id, src, content, v0, rs) }})
	}
	addMulti := func(src, mode string, rs []string, in []mfileIn) {
		jobs = append(jobs, job{len(jobs), func(id int) any { return runMulti(id, src, mode, rs, in) }})
	}
	if len(os.Args) > 4 {
		// replay of one stored case
		var rc struct {
			Case json.RawMessage `json:"case"`
		}
		b, err := os.ReadFile(os.Args[4])
		if err != nil {
			panic(err)
		}
		if err := json.Unmarshal(b, &rc); err != nil {
			panic(err)
		}
		var k struct {
			Kind string `json:"kind"`
		}
		_ = json.Unmarshal(rc.Case, &k)
		if k.Kind == "unit" {
			var uc UnitCase
			_ = json.Unmarshal(rc.Case, &uc)
			c, _ := base64.StdEncoding.DecodeString(uc.Content)
			out.Emit(runUnit(uc.Fix, string(c), uc.Locs, "replay"))
			return
		}
		if k.Kind == "seq" {
			var sc SeqCase
			_ = json.Unmarshal(rc.Case, &sc)
			var in []seqIn
			for _, st := range sc.Steps {
				c, _ := base64.StdEncoding.DecodeString(st.Content)
				in = append(in, seqIn{st.File, string(c), st.Cfg})
			}
			out.Emit(runSeq(0, "replay", sc.Inst, sc.Init, in))
			return
		}
		if k.Kind == "multi" {
			var mc MultiCase
			_ = json.Unmarshal(rc.Case, &mc)
			var in []mfileIn
			for _, f := range mc.Files {
				c, _ := base64.StdEncoding.DecodeString(f.Content)
				in = append(in, mfileIn{f.Path, string(c)})
			}
			out.Emit(runMulti(0, "replay", mc.Mode, mc.Rules, in))
			return
		}
		var ec E2ECase
		_ = json.Unmarshal(rc.Case, &ec)
		c, _ := base64.StdEncoding.DecodeString(ec.Content)
		out.Emit(runE2E(0, "replay", string(c), ec.V0, ec.Rules))
		return
	}

	unitCases(rng, tier, func(u UnitCase) { out.Emit(u) })
	seqCases(rng, tier, func(c SeqCase) { out.Emit(c) })

	if os.Args[3] != "-" {
		fs, _ := filepath.Glob(filepath.Join(os.Args[3], "*.json"))
		sort.Strings(fs)
		for _, f := range fs {
			b, err := os.ReadFile(f)
			if err != nil {
				continue
			}
			var cs []corpusCase
			if err := json.Unmarshal(b, &cs); err != nil {
				fmt.Fprintln(os.Stderr, "bad corpus file", f, err)
				os.Exit(2)
			}
			for _, c := range cs {
				if len(c.Files) > 0 {
					addMulti("corpus:"+c.Name, c.Mode, c.Rules, c.Files)
					continue
				}
				add("corpus:"+c.Name, c.Content, c.V0, c.Rules)
			}
		}
	}
	n := 150
	if tier != "quick" {
		n = 2000
	}
	g := &gen{rng}
	for i := 0; i < n; i++ {
		v0 := rng.Below(5) == 0
		m := g.module(v0)
		rs := ruleSubsets[rng.Below(len(ruleSubsets))]
		if rng.Below(2) == 0 {
			rs = ruleSubsets[rng.Below(5)]
		}
		add("gen", m, v0, rs)
	}
	// multi-byte text (characters outside of the BMP included) before the fix column, decoys to its left
	text3 := []string{"uao", "nwc", "nrr"}
	for i, am := range astralModules(rng, tier) {
		add("astral:"+am.kind, am.content, am.v0, []string{am.kind})
		if tier != "quick" || i%3 == 0 {
			add("astral:"+am.kind, am.content, am.v0, text3)
		}
	}
	// several files in one run
	multiCases(rng, tier, addMulti)

	results := make([]any, len(jobs))
	var wg sync.WaitGroup
	ch := make(chan job)
	nw := runtime.NumCPU()
	if nw > 16 {
		nw = 16
	}
	for w := 0; w < nw; w++ {
		wg.Add(1)
		go func() {
			defer wg.Done()
			for j := range ch {
				results[j.id] = j.run(j.id)
			}
		}()
	}
	for _, j := range jobs {
		ch <- j
	}
	close(ch)
	wg.Wait()
	for _, r := range results {
		out.Emit(r)
	}
}
