// goshape: extracts, with go/ast only, the *shape* of goroutine bodies whose locking structure
// the Coq development reasons about (pkg/linter.lintWithRegoRules, pkg/rules.InputFromPaths), plus
// the constants of the directory walk (skip-directory names, file suffix).  Output: one JSON
// object on stdout.  It is deliberately not a Go semantics: statements are flattened in source
// order with their nesting depth; deferred calls are printed where they run (end of the body,
// last deferred first).
//
// usage: goshape <repo-root>
package main

import (
	"encoding/json"
	"fmt"
	"go/ast"
	"go/parser"
	"go/token"
	"os"
	"path/filepath"
	"regexp"
	"strconv"
	"strings"
)

type Stmt struct {
	Op       string `json:"op"` // lock unlock write read send return call
	Name     string `json:"name"`
	Depth    int    `json:"depth"`
	Deferred bool   `json:"deferred,omitempty"`
	Line     int    `json:"line"`
}

type Shape struct {
	Found bool   `json:"found"`
	File  string `json:"file"`
	Func  string `json:"func"`
	Mutex string `json:"mutex"`
	Stmts []Stmt `json:"stmts"`
}

type Walk struct {
	SkipNames     []string `json:"skip_names"`
	SkipNeedsDir  bool     `json:"skip_needs_isdir"`
	SkipFound     bool     `json:"skip_found"`
	Suffix        string   `json:"suffix"`
	SuffixExpr    string   `json:"suffix_expr"`
	SuffixNotDir  bool     `json:"suffix_requires_not_dir"`
	SuffixFound   bool     `json:"suffix_found"`
	SkipCalledInF bool     `json:"filter_calls_skip"`
}

type Out struct {
	Lint     Shape `json:"lint"`
	Input    Shape `json:"input"`
	CacheGet Shape `json:"cache_get"`
	CachePut Shape `json:"cache_put"`
	Walk     Walk  `json:"walk"`
}

type extractor struct {
	fset   *token.FileSet
	lit    *ast.FuncLit
	recv   *ast.Object // method mode: only the receiver counts as shared
	stmts  []Stmt
	defers []Stmt
}

func (e *extractor) captured(id *ast.Ident) bool {
	if id == nil || id.Obj == nil || id.Obj.Kind != ast.Var {
		return false
	}
	if e.recv != nil {
		return id.Obj == e.recv
	}
	p := id.Obj.Pos()
	return p < e.lit.Pos() || p > e.lit.End()
}

// target: the root identifier and "root" / "root.field" name of an lvalue / use
func target(x ast.Expr) (*ast.Ident, string) {
	switch v := x.(type) {
	case *ast.Ident:
		return v, v.Name
	case *ast.ParenExpr:
		return target(v.X)
	case *ast.StarExpr:
		return target(v.X)
	case *ast.IndexExpr:
		return target(v.X)
	case *ast.SliceExpr:
		return target(v.X)
	case *ast.SelectorExpr:
		root, name := target(v.X)
		if root == nil {
			return nil, ""
		}
		if _, isIdent := v.X.(*ast.Ident); isIdent {
			return root, name + "." + v.Sel.Name
		}
		return root, name // deeper selectors keep the first field
	}
	return nil, ""
}

func (e *extractor) emit(op, name string, depth int, pos token.Pos) {
	e.stmts = append(e.stmts, Stmt{Op: op, Name: name, Depth: depth, Line: e.fset.Position(pos).Line})
}

// reads: every use of a captured variable inside x
func (e *extractor) reads(x ast.Node, depth int) {
	if x == nil {
		return
	}
	ast.Inspect(x, func(n ast.Node) bool {
		switch v := n.(type) {
		case *ast.FuncLit:
			e.block(v.Body.List, depth+1)
			return false
		case *ast.CallExpr:
			if sel, ok := v.Fun.(*ast.SelectorExpr); ok {
				if root, name := target(sel.X); root != nil && e.captured(root) {
					e.emit("call", name+"."+sel.Sel.Name+"()", depth, v.Pos())
					for _, a := range v.Args {
						e.reads(a, depth)
					}
					return false
				}
			}
			return true
		case *ast.SelectorExpr:
			if root, name := target(v); root != nil && e.captured(root) {
				e.emit("read", name, depth, v.Pos())
				return false
			}
			return true
		case *ast.Ident:
			if e.captured(v) {
				e.emit("read", v.Name, depth, v.Pos())
			}
		}
		return true
	})
}

func lockCall(x ast.Expr) (recv string, op string, ok bool) {
	c, isCall := x.(*ast.CallExpr)
	if !isCall {
		return "", "", false
	}
	sel, isSel := c.Fun.(*ast.SelectorExpr)
	if !isSel {
		return "", "", false
	}
	_, name := target(sel.X)
	switch sel.Sel.Name {
	case "Lock", "RLock":
		return name, "lock", name != ""
	case "Unlock", "RUnlock":
		return name, "unlock", name != ""
	}
	return "", "", false
}

func (e *extractor) write(lhs ast.Expr, depth int) {
	// index expressions on the left are read first
	if ix, ok := lhs.(*ast.IndexExpr); ok {
		e.reads(ix.Index, depth)
	}
	if root, name := target(lhs); root != nil && e.captured(root) {
		e.emit("write", name, depth, lhs.Pos())
	}
}

func (e *extractor) block(list []ast.Stmt, depth int) {
	for _, s := range list {
		e.stmt(s, depth)
	}
}

func (e *extractor) stmt(s ast.Stmt, depth int) {
	switch v := s.(type) {
	case nil:
	case *ast.ExprStmt:
		if recv, op, ok := lockCall(v.X); ok {
			e.emit(op, recv, depth, v.Pos())
			return
		}
		e.reads(v.X, depth)
	case *ast.DeferStmt:
		if recv, op, ok := lockCall(v.Call); ok {
			e.defers = append(e.defers, Stmt{Op: op, Name: recv, Depth: depth, Deferred: true, Line: e.fset.Position(v.Pos()).Line})
			return
		}
		sub := &extractor{fset: e.fset, lit: e.lit, recv: e.recv}
		sub.reads(v.Call, depth)
		for _, st := range sub.stmts {
			st.Deferred = true
			e.defers = append(e.defers, st)
		}
	case *ast.AssignStmt:
		for _, r := range v.Rhs {
			e.reads(r, depth)
		}
		for _, l := range v.Lhs {
			if v.Tok == token.DEFINE {
				continue
			}
			if v.Tok != token.ASSIGN { // += etc. read the target as well
				e.reads(l, depth)
			}
			e.write(l, depth)
		}
	case *ast.IncDecStmt:
		e.reads(v.X, depth)
		e.write(v.X, depth)
	case *ast.SendStmt:
		e.reads(v.Value, depth)
		_, name := target(v.Chan)
		e.emit("send", name, depth, v.Pos())
	case *ast.ReturnStmt:
		for _, r := range v.Results {
			e.reads(r, depth)
		}
		e.emit("return", "", depth, v.Pos())
	case *ast.BlockStmt:
		e.block(v.List, depth+1)
	case *ast.IfStmt:
		e.stmt(v.Init, depth)
		e.reads(v.Cond, depth)
		e.block(v.Body.List, depth+1)
		if v.Else != nil {
			e.stmt(v.Else, depth)
		}
	case *ast.ForStmt:
		e.stmt(v.Init, depth)
		e.reads(v.Cond, depth)
		e.block(v.Body.List, depth+1)
		e.stmt(v.Post, depth+1)
	case *ast.RangeStmt:
		e.reads(v.X, depth)
		if v.Tok == token.ASSIGN {
			if v.Key != nil {
				e.write(v.Key, depth)
			}
			if v.Value != nil {
				e.write(v.Value, depth)
			}
		}
		e.block(v.Body.List, depth+1)
	case *ast.SwitchStmt:
		e.stmt(v.Init, depth)
		e.reads(v.Tag, depth)
		for _, c := range v.Body.List {
			cc := c.(*ast.CaseClause)
			for _, x := range cc.List {
				e.reads(x, depth)
			}
			e.block(cc.Body, depth+1)
		}
	case *ast.TypeSwitchStmt:
		e.stmt(v.Init, depth)
		e.stmt(v.Assign, depth)
		for _, c := range v.Body.List {
			e.block(c.(*ast.CaseClause).Body, depth+1)
		}
	case *ast.SelectStmt:
		for _, c := range v.Body.List {
			cc := c.(*ast.CommClause)
			e.stmt(cc.Comm, depth+1)
			e.block(cc.Body, depth+1)
		}
	case *ast.LabeledStmt:
		e.stmt(v.Stmt, depth)
	case *ast.GoStmt:
		e.emit("call", "go", depth, v.Pos())
		e.reads(v.Call, depth+1)
	case *ast.DeclStmt:
		if gd, ok := v.Decl.(*ast.GenDecl); ok {
			for _, sp := range gd.Specs {
				if vs, ok := sp.(*ast.ValueSpec); ok {
					for _, x := range vs.Values {
						e.reads(x, depth)
					}
				}
			}
		}
	case *ast.BranchStmt, *ast.EmptyStmt:
	default:
		e.emit("call", fmt.Sprintf("unhandled:%T", s), depth, s.Pos())
	}
}

// workerShape: the goroutine started per element of a range loop inside function fn
func workerShape(fset *token.FileSet, file *ast.File, rel, fn string) Shape {
	sh := Shape{File: rel, Func: fn, Stmts: []Stmt{}}
	var decl *ast.FuncDecl
	for _, d := range file.Decls {
		if fd, ok := d.(*ast.FuncDecl); ok && fd.Name.Name == fn {
			decl = fd
		}
	}
	if decl == nil || decl.Body == nil {
		return sh
	}
	var lit *ast.FuncLit
	ast.Inspect(decl.Body, func(n ast.Node) bool {
		if lit != nil {
			return false
		}
		if rs, ok := n.(*ast.RangeStmt); ok {
			ast.Inspect(rs.Body, func(m ast.Node) bool {
				if lit != nil {
					return false
				}
				if g, ok := m.(*ast.GoStmt); ok {
					if fl, ok := g.Call.Fun.(*ast.FuncLit); ok {
						lit = fl
						return false
					}
				}
				return true
			})
		}
		return true
	})
	if lit == nil {
		return sh
	}
	e := &extractor{fset: fset, lit: lit}
	e.block(lit.Body.List, 0)
	for i := len(e.defers) - 1; i >= 0; i-- {
		e.stmts = append(e.stmts, e.defers[i])
	}
	// a method call on a variable that is also assigned by the worker may mutate it: a write
	written := map[string]bool{}
	for _, s := range e.stmts {
		if s.Op == "write" {
			written[strings.SplitN(s.Name, ".", 2)[0]] = true
		}
	}
	for i, s := range e.stmts {
		if s.Op == "call" && written[strings.SplitN(s.Name, ".", 2)[0]] {
			e.stmts[i].Op = "write"
		}
	}
	for _, s := range e.stmts {
		if s.Op == "lock" && sh.Mutex == "" {
			sh.Mutex = s.Name
		}
	}
	sh.Found = true
	sh.Stmts = e.stmts
	return sh
}

// methodShape: the body of method fn of the file, with the receiver as the only shared variable
func methodShape(fset *token.FileSet, file *ast.File, rel, fn string) Shape {
	sh := Shape{File: rel, Func: fn, Stmts: []Stmt{}}
	for _, d := range file.Decls {
		fd, ok := d.(*ast.FuncDecl)
		if !ok || fd.Name.Name != fn || fd.Recv == nil || len(fd.Recv.List) != 1 || len(fd.Recv.List[0].Names) != 1 || fd.Body == nil {
			continue
		}
		e := &extractor{fset: fset, recv: fd.Recv.List[0].Names[0].Obj}
		e.block(fd.Body.List, 0)
		for i := len(e.defers) - 1; i >= 0; i-- {
			e.stmts = append(e.stmts, e.defers[i])
		}
		for _, s := range e.stmts {
			if s.Op == "lock" && sh.Mutex == "" {
				sh.Mutex = s.Name
			}
		}
		sh.Found = true
		sh.Stmts = e.stmts
	}
	return sh
}

func parse(fset *token.FileSet, path string) *ast.File {
	f, err := parser.ParseFile(fset, path, nil, 0)
	if err != nil {
		fmt.Fprintln(os.Stderr, "goshape:", err)
		os.Exit(1)
	}
	return f
}

func strLit(x ast.Expr) (string, bool) {
	if bl, ok := x.(*ast.BasicLit); ok && bl.Kind == token.STRING {
		s, err := strconv.Unquote(bl.Value)
		return s, err == nil
	}
	return "", false
}

func exprString(x ast.Expr) string {
	switch v := x.(type) {
	case *ast.Ident:
		return v.Name
	case *ast.SelectorExpr:
		return exprString(v.X) + "." + v.Sel.Name
	case *ast.BasicLit:
		return v.Value
	}
	return fmt.Sprintf("%T", x)
}

// opaConst resolves bundle.<name> in the OPA version the repo's go.mod requires
func opaConst(repo, name string) (string, bool) {
	gm, err := os.ReadFile(filepath.Join(repo, "go.mod"))
	if err != nil {
		return "", false
	}
	m := regexp.MustCompile(`github.com/open-policy-agent/opa (v[0-9][^\s]*)`).FindSubmatch(gm)
	if m == nil {
		return "", false
	}
	gomod := os.Getenv("GOMODCACHE")
	if gomod == "" {
		home, _ := os.UserHomeDir()
		gomod = filepath.Join(home, "go", "pkg", "mod")
	}
	dir := filepath.Join(gomod, "github.com", "open-policy-agent", "opa@"+string(m[1]), "v1", "bundle")
	ents, err := os.ReadDir(dir)
	if err != nil {
		return "", false
	}
	fset := token.NewFileSet()
	for _, en := range ents {
		if !strings.HasSuffix(en.Name(), ".go") || strings.HasSuffix(en.Name(), "_test.go") {
			continue
		}
		f, err := parser.ParseFile(fset, filepath.Join(dir, en.Name()), nil, 0)
		if err != nil {
			continue
		}
		for _, d := range f.Decls {
			gd, ok := d.(*ast.GenDecl)
			if !ok || gd.Tok != token.CONST {
				continue
			}
			for _, sp := range gd.Specs {
				vs := sp.(*ast.ValueSpec)
				for i, n := range vs.Names {
					if n.Name == name && i < len(vs.Values) {
						if s, ok := strLit(vs.Values[i]); ok {
							return s, true
						}
					}
				}
			}
		}
	}
	return "", false
}

func walkConsts(repo string) Walk {
	w := Walk{SkipNames: []string{}}
	fset := token.NewFileSet()
	iof := parse(fset, filepath.Join(repo, "internal", "io", "io.go"))
	for _, d := range iof.Decls {
		fd, ok := d.(*ast.FuncDecl)
		if !ok || fd.Name.Name != "IsSkipWalkDirectory" || fd.Body == nil {
			continue
		}
		w.SkipFound = true
		ast.Inspect(fd.Body, func(n ast.Node) bool {
			switch v := n.(type) {
			case *ast.BinaryExpr:
				if v.Op == token.EQL {
					for _, side := range []ast.Expr{v.X, v.Y} {
						if s, ok := strLit(side); ok {
							w.SkipNames = append(w.SkipNames, s)
						}
					}
				}
			case *ast.CallExpr:
				if sel, ok := v.Fun.(*ast.SelectorExpr); ok && sel.Sel.Name == "IsDir" {
					w.SkipNeedsDir = true
				}
			}
			return true
		})
	}
	ff := parse(fset, filepath.Join(repo, "pkg", "config", "filter.go"))
	for _, d := range ff.Decls {
		fd, ok := d.(*ast.FuncDecl)
		if !ok || fd.Name.Name != "FilterIgnoredPaths" || fd.Body == nil {
			continue
		}
		ast.Inspect(fd.Body, func(n ast.Node) bool {
			c, ok := n.(*ast.CallExpr)
			if !ok {
				return true
			}
			sel, ok := c.Fun.(*ast.SelectorExpr)
			if !ok {
				return true
			}
			if sel.Sel.Name == "IsSkipWalkDirectory" {
				w.SkipCalledInF = true
			}
			if sel.Sel.Name == "HasSuffix" && exprString(sel.X) == "strings" && len(c.Args) == 2 && exprString(c.Args[0]) == "path" {
				w.SuffixFound = true
				w.SuffixExpr = exprString(c.Args[1])
				if s, ok := strLit(c.Args[1]); ok {
					w.Suffix = s
				} else if strings.HasPrefix(w.SuffixExpr, "bundle.") {
					if s, ok := opaConst(repo, strings.TrimPrefix(w.SuffixExpr, "bundle.")); ok {
						w.Suffix = s
					} else {
						w.SuffixFound = false
					}
				} else {
					w.SuffixFound = false
				}
			}
			return true
		})
		// the suffix test is guarded by !info.IsDir()
		ast.Inspect(fd.Body, func(n ast.Node) bool {
			if be, ok := n.(*ast.BinaryExpr); ok && be.Op == token.LAND {
				if u, ok := be.X.(*ast.UnaryExpr); ok && u.Op == token.NOT {
					if c, ok := u.X.(*ast.CallExpr); ok {
						if sel, ok := c.Fun.(*ast.SelectorExpr); ok && sel.Sel.Name == "IsDir" {
							w.SuffixNotDir = true
						}
					}
				}
			}
			return true
		})
	}
	return w
}

func main() {
	if len(os.Args) < 2 {
		fmt.Fprintln(os.Stderr, "usage: goshape <repo-root>")
		os.Exit(2)
	}
	repo := os.Args[1]
	fset := token.NewFileSet()
	var out Out
	lf := parse(fset, filepath.Join(repo, "pkg", "linter", "linter.go"))
	out.Lint = workerShape(fset, lf, "pkg/linter/linter.go", "lintWithRegoRules")
	rf := parse(fset, filepath.Join(repo, "pkg", "rules", "rules.go"))
	out.Input = workerShape(fset, rf, "pkg/rules/rules.go", "InputFromPaths")
	cf := parse(fset, filepath.Join(repo, "internal", "cache", "cache.go"))
	out.CacheGet = methodShape(fset, cf, "internal/cache/cache.go", "Get")
	out.CachePut = methodShape(fset, cf, "internal/cache/cache.go", "Put")
	out.Walk = walkConsts(repo)
	b, _ := json.MarshalIndent(out, "", " ")
	fmt.Println(string(b))
}
