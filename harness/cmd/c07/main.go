package main

import "verifharness/corpus"

func main() { corpus.Main("C07") }
