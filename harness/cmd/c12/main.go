// C12 harness: runs the real Fixer.Fix loop on generated file sets x subsets of the fixable rules under an
// iteration cap and a deadline, records the state seen by every iteration together with what the linter
// reports for it, re-lints the result and fixes a second time. The property predicate is evaluated here,
// on the implementation alone:
//
//	fix terminates (a reached cap/deadline is a violation), succeeds on every lintable set, leaves no
//	violation of an enabled fixable rule (unless a conflict was reported), and a second fix changes nothing.
//
// usage: c12 <out.jsonl> <quick|thorough> <corpus-dir|-> [replay.json]
package main

import (
	"context"
	"encoding/base64"
	"encoding/json"
	"errors"
	"fmt"
	"os"
	"path/filepath"
	"runtime"
	"sort"
	"strings"
	"sync"
	"time"

	"github.com/open-policy-agent/opa/v1/ast"

	"github.com/styrainc/regal/pkg/config"
	"github.com/styrainc/regal/pkg/fixer"
	"github.com/styrainc/regal/pkg/fixer/fileprovider"
	"github.com/styrainc/regal/pkg/fixer/fixes"
	"github.com/styrainc/regal/pkg/linter"
	"github.com/styrainc/regal/pkg/rules"

	"verifharness/hutil"
)

func b64(s string) string { return base64.StdEncoding.EncodeToString([]byte(s)) }
func unb64(s string) string {
	b, _ := base64.StdEncoding.DecodeString(s)
	return string(b)
}

var ruleNames = map[string]string{
	"uao": "use-assignment-operator", "nwc": "no-whitespace-comment", "nrr": "non-raw-regex-pattern",
	"fmt": "opa-fmt", "v1": "use-rego-v1", "dpm": "directory-package-mismatch",
}

type File struct {
	Path    string `json:"path"`
	Content string `json:"content"` // base64
}

type Viol struct {
	Title string `json:"title"`
	File  string `json:"file"`
	Row   int    `json:"row"`
	Col   int    `json:"col"`
	ERow  int    `json:"erow"`
	ECol  int    `json:"ecol"`
	// HeadFallback: a use-assignment-operator violation located at a rule head whose operator is not
	// the last non-blank character before the value on the value's row (documented fallback of the rule)
	HeadFallback bool `json:"head_fallback,omitempty"`
}

// markFallbacks classifies the use-assignment-operator violations left after fixing
func markFallbacks(files map[string]string, vs []Viol) {
	for i := range vs {
		v := &vs[i]
		if v.Title != ruleNames["uao"] {
			continue
		}
		content, ok := files[v.File]
		if !ok {
			continue
		}
		opts := ast.ParserOptions{RegoVersion: rules.RegoVersionFromVersionsMap(vmapAbs(), v.File, ast.RegoV1)}
		m, err := ast.ParseModuleWithOpts(v.File, content, opts)
		if err != nil {
			continue
		}
		lines := strings.Split(strings.ReplaceAll(content, "\r\n", "\n"), "\n")
		for _, r := range m.Rules {
			for x := r; x != nil; x = x.Else {
				h := x.Head
				if h.Location == nil || h.Location.Row != v.Row || h.Location.Col != v.Col || h.Value == nil || h.Value.Location == nil {
					continue
				}
				vr, vc := h.Value.Location.Row, h.Value.Location.Col
				if vr < 1 || vr > len(lines) {
					continue
				}
				rs := []rune(lines[vr-1])
				if vc-1 > len(rs) {
					continue
				}
				before := strings.TrimRight(string(rs[:vc-1]), " \t")
				if !strings.HasSuffix(before, "=") {
					v.HeadFallback = true
				}
			}
		}
	}
}

type Step struct {
	Files   []File `json:"files"`
	Viol    []Viol `json:"viol"`
	LintErr string `json:"linterr,omitempty"`
}

type OracleEntry struct {
	Rule    string `json:"rule"` // fmt | v1 | dpm
	File    string `json:"file"`
	In      string `json:"in"` // base64
	Changed bool   `json:"changed"`
	Out     string `json:"out"` // base64: new content (fmt)
	To      string `json:"to"`  // rename target (dpm)
	Err     bool   `json:"err"`
}

type SetCase struct {
	Kind      string        `json:"kind"`
	ID        int           `json:"id"`
	Src       string        `json:"src"`
	Files     []File        `json:"files"`
	Rules     []string      `json:"rules"`
	Mode      string        `json:"mode"`
	Lintable  bool          `json:"lintable"`
	Err       string        `json:"err"`
	ErrMsg    string        `json:"errmsg,omitempty"`
	Iters     int           `json:"iters"`
	Conflicts bool          `json:"conflicts"`
	Trace     []Step        `json:"trace"`
	Final     []File        `json:"final"`
	Relint    []Viol        `json:"relint"`
	RelintErr string        `json:"relint_err,omitempty"`
	Second    bool          `json:"second_changed"`
	SecondErr string        `json:"second_err,omitempty"`
	Oracle    []OracleEntry `json:"oracle"`
	// every fp.Rename request of the first fix, in order (iteration = number of ToInput calls so far)
	Renames []RenameReq `json:"renames"`
	// directory-package-mismatch configured with exclude-test-suffix: false
	NoExclude bool `json:"no_exclude_test_suffix,omitempty"`
	// wall time of this set in the harness (evidence only; no verdict depends on it)
	Ms int64 `json:"ms"`
}

// RenameReq: one fp.Rename(from, to) as the file provider saw it
type RenameReq struct {
	Iter     int    `json:"iter"`
	From     string `json:"from"`
	To       string `json:"to"`
	Conflict bool   `json:"conflict"`
	Err      bool   `json:"err"` // failed for another reason than a conflict
}

const wsRoot = "/ws"

func vmapAbs() map[string]ast.RegoVersion {
	return map[string]ast.RegoVersion{wsRoot + "/v0": ast.RegoV0}
}

func toFiles(m map[string]string) []File {
	var ks []string
	for k := range m {
		ks = append(ks, k)
	}
	sort.Strings(ks)
	var o []File
	for _, k := range ks {
		o = append(o, File{k, b64(m[k])})
	}
	return o
}

func fromFiles(fs []File) map[string]string {
	m := map[string]string{}
	for _, f := range fs {
		m[f.Path] = unb64(f.Content)
	}
	return m
}

func copyMap(m map[string]string) map[string]string {
	o := make(map[string]string, len(m))
	for k, v := range m {
		o[k] = v
	}
	return o
}

// newLinter: the linter handed to the fixer (and used for re-linting); noExclude configures
// directory-package-mismatch with exclude-test-suffix: false
func newLinter(rulesOn []string, noExclude bool) linter.Linter {
	l := linter.NewLinter()
	if noExclude {
		l = l.WithUserConfig(dpmUserConfig(false))
	}
	return l.WithDisableAll(true).WithEnabledRules(rulesOn...)
}

func lintOnce(files map[string]string, rulesOn []string, noExclude bool) ([]Viol, error) {
	if len(files) == 0 {
		return nil, nil
	}
	fp := fileprovider.NewInMemoryFileProvider(copyMap(files))
	in, err := fp.ToInput(vmapAbs())
	if err != nil {
		return nil, err
	}
	l := newLinter(rulesOn, noExclude).WithInputModules(&in)
	rep, err := l.Lint(context.Background())
	if err != nil {
		return nil, err
	}
	var vs []Viol
	for _, v := range rep.Violations {
		x := Viol{Title: v.Title, File: v.Location.File, Row: v.Location.Row, Col: v.Location.Column}
		if v.Location.End != nil {
			x.ERow, x.ECol = v.Location.End.Row, v.Location.End.Column
		}
		vs = append(vs, x)
	}
	return vs, nil
}

type countingFP struct {
	*fileprovider.InMemoryFileProvider
	iters   int
	cap     int
	snaps   []map[string]string
	renames []RenameReq
}

var errIterCap = errors.New("verif: iteration cap reached")

// renameCap bounds the Rename requests of one Fix: handleRename's candidate loop has no bound of its own and
// does not look at the context, so a loop that never finds a free name is cut here (and reported as
// non-termination). Far above what any generated file set needs (at most files x files requests).
const renameCap = 400

var errRenameCap = errors.New("verif: rename request cap reached")

func (c *countingFP) Rename(from, to string) error {
	if len(c.renames) >= renameCap {
		return errRenameCap
	}
	err := c.InMemoryFileProvider.Rename(from, to)
	r := RenameReq{Iter: c.iters, From: from, To: to}
	if err != nil {
		if errors.As(err, &fileprovider.RenameConflictError{}) {
			r.Conflict = true
		} else {
			r.Err = true
		}
	}
	c.renames = append(c.renames, r)
	return err
}

func (c *countingFP) all() map[string]string {
	o := map[string]string{}
	ls, _ := c.InMemoryFileProvider.List()
	for _, f := range ls {
		x, _ := c.InMemoryFileProvider.Get(f)
		o[f] = x
	}
	return o
}

func (c *countingFP) ToInput(vm map[string]ast.RegoVersion) (rules.Input, error) {
	c.iters++
	c.snaps = append(c.snaps, c.all())
	if c.iters > c.cap {
		return rules.Input{}, errIterCap
	}
	return c.InMemoryFileProvider.ToInput(vm)
}

type fixOut struct {
	final     map[string]string
	snaps     []map[string]string
	renames   []RenameReq
	iters     int
	errClass  string
	errMsg    string
	conflicts bool
}

func runFix(files map[string]string, rulesOn []string, mode string, capIters int, deadline time.Duration, noExclude bool) fixOut {
	mem := fileprovider.NewInMemoryFileProvider(copyMap(files))
	cfp := &countingFP{InMemoryFileProvider: mem, cap: capIters}
	ctx, cancel := context.WithTimeout(context.Background(), deadline)
	defer cancel()
	l := newLinter(rulesOn, noExclude)
	f := fixer.NewFixer()
	f.RegisterFixes(fixes.NewDefaultFixes()...)
	f.RegisterRoots(wsRoot)
	f.SetRegoVersionsMap(vmapAbs())
	if mode == "rename" {
		f.SetOnConflictOperation(fixer.OnConflictRename)
	}
	type res struct {
		err  error
		conf bool
	}
	done := make(chan res, 1)
	go func() {
		defer func() {
			if r := recover(); r != nil {
				done <- res{fmt.Errorf("panic: %v", r), false}
			}
		}()
		rep, err := f.Fix(ctx, &l, cfp)
		done <- res{err, rep != nil && rep.HasConflicts()}
	}()
	o := fixOut{}
	var err error
	select {
	case r := <-done:
		err = r.err
		o.conflicts = r.conf
	case <-time.After(deadline + 30*time.Second):
		o.errClass, o.errMsg = "deadline", "hard deadline"
		o.iters = cfp.iters
		return o
	}
	o.final, o.snaps, o.iters, o.renames = cfp.all(), cfp.snaps, cfp.iters, cfp.renames
	if err != nil {
		m := err.Error()
		switch {
		case strings.Contains(m, "iteration cap reached"):
			o.errClass = "itercap"
		case strings.Contains(m, "rename request cap reached"):
			o.errClass = "renamecap"
		case errors.Is(err, context.DeadlineExceeded) || strings.Contains(m, "deadline"):
			o.errClass = "deadline"
		case strings.Contains(m, "panic:"):
			o.errClass = "panic"
		case strings.Contains(m, "rego_parse_error") || strings.Contains(m, "failed to parse"):
			o.errClass = "parse"
		default:
			o.errClass = "other"
		}
		if len(m) > 400 {
			m = m[:400]
		}
		o.errMsg = m
	}
	return o
}

func defaultConfig() *config.Config {
	l := linter.NewLinter()
	c, err := l.GetConfig()
	if err != nil {
		return nil
	}
	return c
}

var defCfg = defaultConfig()

var noExcludeCfg = func() *config.Config {
	c, err := linter.NewLinter().WithUserConfig(dpmUserConfig(false)).GetConfig()
	if err != nil {
		return nil
	}
	return c
}()

// the real Fmt / DirectoryPackageMismatch fixes tabulated for the model (they are oracles there)
func oracleFor(rule, file, content string, noExclude bool, seen map[string]bool, out *[]OracleEntry) {
	key := rule + "\x00" + file + "\x00" + content
	if seen[key] {
		return
	}
	seen[key] = true
	e := OracleEntry{Rule: rule, File: file, In: b64(content)}
	ver := rules.RegoVersionFromVersionsMap(vmapAbs(), file, ast.RegoUndefined)
	fc := &fixes.FixCandidate{Filename: file, Contents: content, RegoVersion: ver}
	opts := &fixes.RuntimeOptions{BaseDir: wsRoot, Config: defCfg}
	if noExclude {
		opts.Config = noExcludeCfg
	}
	var fx fixes.Fix
	switch rule {
	case "fmt":
		fx = &fixes.Fmt{}
	case "v1":
		fx = &fixes.Fmt{NameOverride: "use-rego-v1"}
	case "dpm":
		fx = &fixes.DirectoryPackageMismatch{}
	}
	func() {
		defer func() {
			if r := recover(); r != nil {
				e.Err = true
			}
		}()
		res, err := fx.Fix(fc, opts)
		if err != nil {
			e.Err = true
			return
		}
		if len(res) == 0 {
			return
		}
		e.Changed = true
		e.Out = b64(res[0].Contents)
		if res[0].Rename != nil {
			e.To = res[0].Rename.ToPath
		}
	}()
	*out = append(*out, e)
	if e.Changed && rule != "dpm" {
		// the formatter may be applied again to its own output within the same iteration
		oracleFor(rule, file, unb64(e.Out), noExclude, seen, out)
	}
}

func short(title string) string {
	for k, v := range ruleNames {
		if v == title {
			return k
		}
	}
	return title
}

func runSet(id int, src string, files map[string]string, rs []string, mode string, noExclude bool) SetCase {
	c := SetCase{Kind: "set", ID: id, Src: src, Files: toFiles(files), Rules: rs, Mode: mode, NoExclude: noExclude}
	var long []string
	for _, r := range rs {
		long = append(long, ruleNames[r])
	}
	// one lint per distinct state of the files: the first snapshot is the input, the last one the result
	type lintRes struct {
		vs  []Viol
		err error
	}
	memo := map[string]lintRes{}
	lintMemo := func(fs map[string]string) ([]Viol, error) {
		kb, _ := json.Marshal(fs)
		if r, ok := memo[string(kb)]; ok {
			return append([]Viol{}, r.vs...), r.err
		}
		vs, err := lintOnce(fs, long, noExclude)
		memo[string(kb)] = lintRes{vs, err}
		return append([]Viol{}, vs...), err
	}
	if _, err := lintMemo(files); err != nil {
		c.ErrMsg = "lint: " + trunc(err.Error())
		return c
	}
	c.Lintable = true
	o := runFix(files, long, mode, 30, 240*time.Second, noExclude)
	c.Err, c.ErrMsg, c.Iters, c.Conflicts = o.errClass, o.errMsg, o.iters, o.conflicts
	c.Renames = o.renames
	if len(c.Renames) > 60 {
		c.Renames = c.Renames[:60] // a loop that was cut: the first requests show what it does
	}
	c.Final = toFiles(o.final)
	seen := map[string]bool{}
	for _, s := range o.snaps {
		st := Step{Files: toFiles(s)}
		vs, err := lintMemo(s)
		if err != nil {
			st.LintErr = trunc(err.Error())
		}
		st.Viol = vs
		for _, v := range vs {
			switch sh := short(v.Title); sh {
			case "fmt", "v1", "dpm":
				oracleFor(sh, v.File, s[v.File], noExclude, seen, &c.Oracle)
			}
		}
		c.Trace = append(c.Trace, st)
		if len(c.Trace) >= 12 {
			break // enough for the correspondence; the verdict does not depend on the trace
		}
	}
	if o.errClass == "" {
		rv, err := lintMemo(o.final)
		if err != nil {
			c.RelintErr = trunc(err.Error())
		}
		markFallbacks(o.final, rv)
		c.Relint = rv
		o2 := runFix(o.final, long, mode, 30, 240*time.Second, noExclude)
		if o2.errClass != "" {
			c.SecondErr = o2.errClass
		}
		if !sameFiles(o.final, o2.final) {
			c.Second = true
		}
	}
	return c
}

func trunc(s string) string {
	if len(s) > 400 {
		return s[:400]
	}
	return s
}

func sameFiles(a, b map[string]string) bool {
	if len(a) != len(b) {
		return false
	}
	for k, v := range a {
		if w, ok := b[k]; !ok || w != v {
			return false
		}
	}
	return true
}

// ---- generator ------------------------------------------------------------------------------

var strPool = []string{`"a"`, `"a=b"`, `"x # y"`, "\"\u00e9\u00e9#\"", "\"\u00e9\u00e9\u00e9=\"", `"=\"q\"="`, "`raw=`", `"#"`}
var patPool = []string{`"[0-9]+"`, `"\\d+"`, `"a\\\\b"`, `"\\d\n"`, "\"\\\\d`\"", "\"\u00e9\\\\d\"", `"\\\\"`, "`\\d`", `"\""`}
var comments = []string{"#foo", "# ok", "##x", "#\u00e9", "#=", "#"}

type gen struct{ r *hutil.Rng }

func (g *gen) str() string { return hutil.Choice(g.r, strPool) }
func (g *gen) eq() string  { return hutil.Choice(g.r, []string{" = ", "=", "  =  ", " = ", " := "}) }
func (g *gen) trail() string {
	if g.r.Below(4) == 0 {
		return hutil.Choice(g.r, []string{" ", "", "  "}) + hutil.Choice(g.r, comments)
	}
	return ""
}

func (g *gen) rule(v0 bool, i int) string {
	n := fmt.Sprintf("r%d", i)
	iff := " if "
	if v0 {
		iff = " "
	}
	re := func() string {
		p := hutil.Choice(g.r, patPool)
		if g.r.Below(3) == 0 {
			return "regex.globs_match(" + p + ", " + hutil.Choice(g.r, patPool) + ")"
		}
		return "regex.match(" + p + ", " + g.str() + ")"
	}
	switch g.r.Below(9) {
	case 0:
		return n + g.eq() + g.str() + g.trail()
	case 1:
		return n + "(" + g.str() + ")" + g.eq() + "1" + g.trail()
	case 2:
		return "default " + n + g.eq() + "false" + g.trail()
	case 3:
		return n + iff + "{" + g.trail() + "\n\t" + re() + g.trail() + "\n}"
	case 4:
		return n + "(x)" + g.eq() + "1" + iff + "{ x == 1 } else" + g.eq() + g.str()
	case 5:
		if v0 {
			return n + "[x] { x := " + g.str() + " }"
		}
		return n + " contains x if { x := " + g.str() + " }"
	case 6:
		return n + "[" + g.str() + "]" + g.eq() + "2" + g.trail()
	case 7:
		return n + iff + "{ " + re() + "; " + re() + " }" + g.trail()
	}
	return n + " =\n\t" + g.str()
}

// package names never lead into the v0 root unless the file is there already: moving a file
// between roots of different Rego versions is outside the domain (the property does not say what should happen)
var pkgs = []string{"p", "q", "p.sub", "p_test", "deep.er.pkg"}
var dirs = []string{"p", "q", "p/sub", "wrong", "v0/p", "v0/x", "", "deep/er/pkg"}
var bases = []string{"a.rego", "b.rego", "a_test.rego", "a_1.rego"}

func (g *gen) fileSet() map[string]string {
	n := 1 + g.r.Below(3)
	if g.r.Below(5) == 0 {
		n = 4
	}
	fs := map[string]string{}
	for i := 0; i < n; i++ {
		d := hutil.Choice(g.r, dirs)
		pk := hutil.Choice(g.r, pkgs)
		if strings.HasPrefix(d, "v0") {
			pk = "v0." + pk
		}
		if g.r.Below(2) == 0 {
			// mostly in the right place
			pk = strings.ReplaceAll(d, "/", ".")
			if pk == "" {
				pk = "p"
			}
		}
		path := filepath.Join(wsRoot, d, hutil.Choice(g.r, bases))
		if _, dup := fs[path]; dup {
			continue
		}
		v0 := strings.HasPrefix(path, wsRoot+"/v0/")
		var b strings.Builder
		if g.r.Below(6) == 0 {
			b.WriteString(hutil.Choice(g.r, comments) + "\n")
		}
		b.WriteString("package " + pk + g.trail() + "\n\n")
		nr := 1 + g.r.Below(3)
		for k := 0; k < nr; k++ {
			b.WriteString(g.rule(v0, k) + "\n")
			if g.r.Below(2) == 0 {
				b.WriteString("\n")
			}
		}
		s := b.String()
		if g.r.Below(8) == 0 {
			s = strings.ReplaceAll(s, "\n", "\r\n")
		}
		fs[path] = s
	}
	return fs
}

var allRules = []string{"uao", "nwc", "nrr", "fmt", "v1", "dpm"}

func (g *gen) subset() []string {
	switch g.r.Below(6) {
	case 0:
		return append([]string{}, allRules...)
	case 1:
		return []string{hutil.Choice(g.r, allRules)}
	case 2:
		return []string{"uao", "nwc", "nrr"}
	}
	var o []string
	for _, r := range allRules {
		if g.r.Below(2) == 0 {
			o = append(o, r)
		}
	}
	if len(o) == 0 {
		o = []string{"uao"}
	}
	return o
}

type corpusCase struct {
	Name      string            `json:"name"`
	Files     map[string]string `json:"files"`
	Rules     []string          `json:"rules"`
	Mode      string            `json:"mode"`
	NoExclude bool              `json:"no_exclude_test_suffix"`
}

type job struct {
	id        int
	src       string
	files     map[string]string
	rules     []string
	mode      string
	noExclude bool
}

func main() {
	if len(os.Args) < 4 {
		fmt.Fprintln(os.Stderr, "usage: c12 <out.jsonl> <quick|thorough> <corpus-dir|-> [replay.json]")
		os.Exit(2)
	}
	out := hutil.NewOut(os.Args[1])
	defer out.Close()
	tier := os.Args[2]
	rng := hutil.NewRng(hutil.SeedFromEnv())
	var jobs []job
	addx := func(src string, files map[string]string, rs []string, mode string, noExclude bool) {
		if mode == "" {
			mode = "error"
		}
		jobs = append(jobs, job{len(jobs), src, files, rs, mode, noExclude})
	}
	add := func(src string, files map[string]string, rs []string, mode string) { addx(src, files, rs, mode, false) }
	if len(os.Args) > 4 {
		var rc struct {
			Case SetCase `json:"case"`
		}
		b, err := os.ReadFile(os.Args[4])
		if err != nil {
			panic(err)
		}
		var probe struct {
			Case struct {
				Kind string `json:"kind"`
			} `json:"case"`
		}
		_ = json.Unmarshal(b, &probe)
		if probe.Case.Kind == "dpm" {
			var rd struct {
				Case DpmCase `json:"case"`
			}
			if err := json.Unmarshal(b, &rd); err != nil {
				panic(err)
			}
			de, err := newDpmEnv()
			if err != nil {
				panic(err)
			}
			out.Emit(de.run(0, rd.Case.Pkg, rd.Case.Exclude, rd.Case.V0))
			return
		}
		if err := json.Unmarshal(b, &rc); err != nil {
			panic(err)
		}
		out.Emit(runSet(0, "replay", fromFiles(rc.Case.Files), rc.Case.Rules, rc.Case.Mode, rc.Case.NoExclude))
		return
	}
	// which fixes exist: the loop model has one constructor per fix (Model/FixLoop.v rule)
	var defNames, fmtNames []string
	for _, f := range fixes.NewDefaultFixes() {
		defNames = append(defNames, f.Name())
	}
	for _, f := range fixes.NewDefaultFormatterFixes() {
		fmtNames = append(fmtNames, f.Name())
	}
	sort.Strings(defNames)
	sort.Strings(fmtNames)
	out.Emit(map[string]any{"kind": "meta", "fixes": defNames, "formatter_fixes": fmtNames})
	if os.Args[3] != "-" {
		fs, _ := filepath.Glob(filepath.Join(os.Args[3], "*.json"))
		sort.Strings(fs)
		for _, f := range fs {
			b, err := os.ReadFile(f)
			if err != nil {
				continue
			}
			var cs []corpusCase
			if err := json.Unmarshal(b, &cs); err != nil {
				fmt.Fprintln(os.Stderr, "bad corpus file", f, err)
				os.Exit(2)
			}
			for _, c := range cs {
				addx("corpus:"+c.Name, c.Files, c.Rules, c.Mode, c.NoExclude)
			}
		}
	}
	n := 56
	if tier != "quick" {
		n = 900
	}
	g := &gen{rng}
	for i := 0; i < n; i++ {
		mode := "error"
		if rng.Below(3) == 0 {
			mode = "rename"
		}
		add("gen", g.fileSet(), g.subset(), mode)
	}
	// k-way collisions of moves (2-4 files of one base name and package, names of the candidate sequence
	// already taken at the target), each under BOTH conflict modes; package paths with _test / quoted
	// components in every position under both settings of exclude-test-suffix
	nc, ni := 7, 6
	if tier != "quick" {
		nc, ni = 60, 60
	}
	g2 := &gen{hutil.NewRng(hutil.SeedFromEnv() ^ 0xc011)}
	for i := 0; i < nc; i++ {
		files, rs := g2.collideSet()
		add("gen-collide", files, rs, "rename")
		add("gen-collide", files, rs, "error")
	}
	for i := 0; i < ni; i++ {
		files, rs, noEx := g2.innerTestSet()
		mode := "error"
		if g2.r.Below(3) == 0 {
			mode = "rename"
		}
		addx("gen-pkgpath", files, rs, mode, noEx)
	}
	// function level of directory-package-mismatch: rule (Rego) vs fix (Go) on generated package paths
	nd := 140
	if tier != "quick" {
		nd = 600
	}
	de, err := newDpmEnv()
	if err != nil {
		panic(err)
	}
	type djob struct {
		comps   []string
		exclude bool
		v0      bool
	}
	var djobs []djob
	for i, comps := range dpmCases(hutil.NewRng(hutil.SeedFromEnv()^0xd9b4), nd) {
		for _, ex := range []bool{true, false} {
			djobs = append(djobs, djob{comps, ex, i%7 == 3})
		}
	}
	dres := make([]DpmCase, len(djobs))
	results := make([]SetCase, len(jobs))
	var wg sync.WaitGroup
	ch := make(chan func())
	nw := runtime.NumCPU()
	if nw > 16 {
		nw = 16
	}
	for w := 0; w < nw; w++ {
		wg.Add(1)
		go func() {
			defer wg.Done()
			for f := range ch {
				f()
			}
		}()
	}
	for _, j := range jobs {
		ch <- func() {
			t0 := time.Now()
			results[j.id] = runSet(j.id, j.src, j.files, j.rules, j.mode, j.noExclude)
			results[j.id].Ms = time.Since(t0).Milliseconds()
		}
	}
	for i, d := range djobs {
		ch <- func() { dres[i] = de.run(i, d.comps, d.exclude, d.v0) }
	}
	close(ch)
	wg.Wait()
	for _, r := range results {
		out.Emit(r)
	}
	for _, r := range dres {
		out.Emit(r)
	}
}
