// C12 harness, generators added after the second seeded round:
//   - collideSet: k-way collisions of moves. 2-4 files of ONE base name and ONE package sit in wrong
//     directories, so directory-package-mismatch sends all of them to the same path; names of the candidate
//     sequence (p.rego, p_1.rego, p_2.rego, ... / p_test.rego, p_1_test.rego, ...) may already be taken at
//     the target by files that are in place. Every set is run under both conflict modes.
//   - innerTestSet: package paths with _test (and quoted components) in every position, files in wrong
//     directories, in the right one, and in the directories that other readings of "without the test suffix"
//     would pick; both settings of exclude-test-suffix.
package main

import (
	"fmt"
	"path/filepath"
	"strings"

	"verifharness/hutil"
)

// candName is the harness' own reading of the documented naming scheme (k-th alternative of a base name), used
// only to PLACE files on names the fixer will ask for; the fixer's renameCandidate is never called here.
func candName(base string, k int) string {
	if k == 0 {
		return base
	}
	ext := filepath.Ext(base)
	b := strings.TrimSuffix(base, ext)
	suffix := ""
	if strings.HasSuffix(b, "_test") {
		suffix = "_test"
		b = strings.TrimSuffix(b, "_test")
	}
	start := 0
	if i := strings.LastIndex(b, "_"); i >= 0 {
		n, ok := 0, i+1 < len(b)
		for _, ch := range b[i+1:] {
			if ch < '0' || ch > '9' {
				ok = false
				break
			}
			n = n*10 + int(ch-'0')
		}
		if ok {
			start, b = n, b[:i]
		}
	}
	return fmt.Sprintf("%s_%d%s%s", b, start+k, suffix, ext)
}

type collideShape struct {
	pkg    string // package of the colliding files
	pkgDir string // where it belongs (exclude-test-suffix: true)
	base   string
}

var collideShapes = []collideShape{
	{"foo", "foo", "p.rego"},
	{"foo.bar", "foo/bar", "p.rego"},
	{"foo_test", "foo", "p_test.rego"},
	{"foo", "foo", "p_1.rego"},
	{"foo", "foo", "p_9.rego"},
	{"foo.bar_test", "foo/bar", "p_1_test.rego"},
	{"foo", "foo", "policy_v2.rego"},
	{"foo", "foo", "p_x_3.rego"},
}

var wrongDirs = []string{"a", "b", "c", "d/x", "", "foo/sub", "e_1"}

func (g *gen) collideSet() (map[string]string, []string) {
	sh := hutil.Choice(g.r, collideShapes)
	k := 2 + g.r.Below(3)
	fs := map[string]string{}
	dirs := append([]string{}, wrongDirs...)
	hutil.Shuffle(g.r, dirs)
	withContent := g.r.Below(3) == 0
	body := func(i int) string {
		if withContent && i%2 == 0 {
			return fmt.Sprintf("x%d = %d #c\n", i, i)
		}
		return fmt.Sprintf("x%d := %d\n", i, i)
	}
	for i := 0; i < k; i++ {
		fs[filepath.Join(wsRoot, dirs[i], sh.base)] = "package " + sh.pkg + "\n\n" + body(i)
	}
	// names of the candidate sequence that are taken at the target already: a prefix (p, p_1, ...), or a
	// scattered subset (p_1 and p_3 but not p / p_2)
	taken := map[int]bool{}
	switch g.r.Below(4) {
	case 0: // none: the colliding files collide with each other only
	case 1, 2:
		n := 1 + g.r.Below(3)
		for j := 0; j < n; j++ {
			taken[j] = true
		}
	default:
		for j := 0; j < 5; j++ {
			if g.r.Below(2) == 0 {
				taken[j] = true
			}
		}
	}
	for j := range taken {
		fs[filepath.Join(wsRoot, sh.pkgDir, candName(sh.base, j))] = "package " + sh.pkg + "\n\n" + fmt.Sprintf("held%d := true\n", j)
	}
	// sometimes a second, unrelated group of colliding files in the same run
	if g.r.Below(4) == 0 {
		for i := 0; i < 2; i++ {
			fs[filepath.Join(wsRoot, dirs[k+i], "q.rego")] = "package other\n\n" + body(10+i)
		}
	}
	rs := []string{"dpm"}
	if withContent {
		rs = hutil.Choice(g.r, [][]string{{"dpm", "fmt"}, append([]string{}, allRules...), {"dpm", "uao", "nwc"}})
	}
	return fs, rs
}

// package paths for the end-to-end runs: every component is one the fix handles (identifier or dashes)
var e2ePkgs = [][]string{
	{"authz_test", "helpers"}, {"authz", "policy_test"}, {"foo_test", "bar_test"}, {"a_test", "b", "c_test"},
	{"p", "my-pkg"}, {"p", "my-pkg_test"}, {"p", "my-pkg_test", "q"}, {"p", "_test"}, {"_test", "q"},
	{"test_test"}, {"x_test_test", "y"}, {"lib", "test"}, {"lib_test"}, {"a", "b_test", "c"},
}

func (g *gen) innerTestSet() (map[string]string, []string, bool) {
	noExclude := g.r.Below(3) == 0
	fs := map[string]string{}
	n := 1 + g.r.Below(3)
	for i := 0; i < n; i++ {
		comps := hutil.Choice(g.r, e2ePkgs)
		if g.r.Below(4) == 0 {
			k := 1 + g.r.Below(3)
			comps = nil
			for j := 0; j < k; j++ {
				for {
					c := dpmComponent(g.r, j == 0)
					if fixHandles(c) {
						comps = append(comps, c)
						break
					}
				}
			}
		}
		pls := dpmPlacements(comps)
		dir := pls[g.r.Below(len(pls))][1]
		base := hutil.Choice(g.r, []string{"helpers.rego", "policy_test.rego", "x.rego"})
		text := renderPackage(comps) + "\n\n" + fmt.Sprintf("v%d := %d\n", i, i)
		fs[filepath.Join(wsRoot, dir, base)] = text
	}
	rs := []string{"dpm"}
	if g.r.Below(3) == 0 {
		rs = []string{"dpm", "fmt"}
	}
	return fs, rs, noExclude
}

// fixHandles: the component is one the fix does not refuse by its documented limitation
// ("can only handle [a-zA-Z0-9_-] characters in package name")
func fixHandles(c string) bool {
	if c == "" {
		return false
	}
	for i, ch := range c {
		ok := ch == '_' || (ch >= 'a' && ch <= 'z') || (ch >= 'A' && ch <= 'Z') || (i > 0 && (ch == '-' || (ch >= '0' && ch <= '9')))
		if !ok {
			return false
		}
	}
	return true
}
