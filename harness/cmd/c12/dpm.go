// C12 harness, function level of directory-package-mismatch: the RULE (Rego) and the FIX (Go) compute the
// directory a package belongs in independently.  For generated package paths x both settings of
// exclude-test-suffix x a family of placements of the file, this file records
//
//	what the real rule body reports for the module at that placement (evaluated directly with the embedded
//	bundle, merged configuration of a real Linter), and
//	what the real DirectoryPackageMismatch.Fix answers for the same file (nothing / move to <path> / error).
//
// tools/props/c12.py evaluates the agreement on these observations alone (the fix's target is accepted by the
// rule; "already in place" only where the rule reports nothing) and Check/C12Check.v compares both sides with
// Model/DpmAgree.v.
package main

import (
	"context"
	"fmt"
	"path/filepath"
	"regexp"
	"sort"
	"strings"

	"github.com/open-policy-agent/opa/v1/ast"
	"github.com/open-policy-agent/opa/v1/rego"

	rbundle "github.com/styrainc/regal/bundle"
	"github.com/styrainc/regal/pkg/builtins"
	"github.com/styrainc/regal/pkg/config"
	"github.com/styrainc/regal/pkg/fixer/fixes"
	"github.com/styrainc/regal/pkg/linter"
	"github.com/styrainc/regal/pkg/rules"
	"github.com/styrainc/roast/pkg/transform"

	"verifharness/hutil"
)

// DpmPlace: one placement of the file and what rule and fix say about it
type DpmPlace struct {
	Why  string `json:"why"`
	File string `json:"file"`
	// number of violations the rule body reports for the module under this file name; -1 = evaluation failed
	Rule int `json:"rule"`
	// "none" (file is where it should be) | "move" | "error"
	Fix    string `json:"fix"`
	To     string `json:"to,omitempty"`
	FixErr string `json:"fix_err,omitempty"`
}

type DpmCase struct {
	Kind    string     `json:"kind"` // "dpm"
	ID      int        `json:"id"`
	Pkg     []string   `json:"pkg"` // package path components without "data"
	Text    string     `json:"text"`
	Exclude bool       `json:"exclude"`
	V0      bool       `json:"v0"`
	Parses  bool       `json:"parses"`
	Places  []DpmPlace `json:"places"`
	Err     string     `json:"err,omitempty"`
}

var identRe = regexp.MustCompile(`^[a-zA-Z_][a-zA-Z0-9_]*$`)

var regoKeywords = map[string]bool{"package": true, "import": true, "as": true, "default": true, "else": true, "with": true,
	"null": true, "true": true, "false": true, "some": true, "not": true, "if": true, "in": true, "every": true, "contains": true,
	"data": true, "input": true}

// renderPackage writes the package clause: components that are not identifiers (or are keywords) in brackets
func renderPackage(comps []string) string {
	var b strings.Builder
	b.WriteString("package ")
	for i, c := range comps {
		switch {
		case i == 0:
			b.WriteString(c)
		case identRe.MatchString(c) && !regoKeywords[c]:
			b.WriteString("." + c)
		default:
			b.WriteString(fmt.Sprintf("[%q]", c))
		}
	}
	return b.String()
}

type dpmEnv struct {
	ctx  context.Context
	pq   rego.PreparedEvalQuery
	cfg  map[bool]*config.Config
	cfgV map[bool]*ast.Term
}

func dpmUserConfig(exclude bool) config.Config {
	return config.Config{Rules: map[string]config.Category{"idiomatic": {"directory-package-mismatch": config.Rule{
		Level: "error", Extra: config.ExtraAttributes{"exclude-test-suffix": exclude}}}}}
}

func newDpmEnv() (*dpmEnv, error) {
	e := &dpmEnv{ctx: context.Background(), cfg: map[bool]*config.Config{}, cfgV: map[bool]*ast.Term{}}
	q := `r := data.regal.rules.idiomatic["directory-package-mismatch"].report with data.internal.combined_config as input.verif.cfg`
	args := append([]func(*rego.Rego){
		rego.ParsedQuery(ast.MustParseBody(q)), rego.StoreReadAST(true),
		rego.ParsedBundle("regal", &rbundle.LoadedBundle),
	}, builtins.RegalBuiltinRegoFuncs...)
	var err error
	if e.pq, err = rego.New(args...).PrepareForEval(e.ctx); err != nil {
		return nil, err
	}
	for _, ex := range []bool{true, false} {
		// the merged configuration as the linter (and through it the fixer) sees it
		merged, err := linter.NewLinter().WithUserConfig(dpmUserConfig(ex)).GetConfig()
		if err != nil {
			return nil, err
		}
		e.cfg[ex] = merged
		cv, err := transform.ToOPAInputValue(config.ToMap(*merged))
		if err != nil {
			return nil, err
		}
		e.cfgV[ex] = ast.NewTerm(cv)
	}
	return e, nil
}

func (e *dpmEnv) ruleAt(file, text string, v0, exclude bool) int {
	opts := ast.ParserOptions{ProcessAnnotation: true, RegoVersion: ast.RegoV1}
	if v0 {
		opts.RegoVersion = ast.RegoV0
	}
	in, err := rules.InputFromTextWithOptions(file, text, opts)
	if err != nil {
		return -1
	}
	v, err := transform.ToAST(file, text, in.Modules[file], false)
	if err != nil {
		return -1
	}
	obj, ok := v.(ast.Object)
	if !ok {
		return -1
	}
	inp := ast.NewObject()
	obj.Foreach(func(k, v *ast.Term) { inp.Insert(k, v) })
	inp.Insert(ast.StringTerm("verif"), ast.ObjectTerm(ast.Item(ast.StringTerm("cfg"), e.cfgV[exclude])))
	rs, err := e.pq.Eval(e.ctx, rego.EvalParsedInput(inp))
	if err != nil {
		return -1
	}
	if len(rs) != 1 {
		return 0 // report undefined: nothing reported
	}
	arr, _ := rs[0].Bindings["r"].([]any)
	return len(arr)
}

func (e *dpmEnv) fixAt(file, text string, v0, exclude bool) (kind, to, msg string) {
	defer func() {
		if r := recover(); r != nil {
			kind, msg = "error", fmt.Sprintf("panic: %v", r)
		}
	}()
	ver := ast.RegoV1
	if v0 {
		ver = ast.RegoV0
	}
	res, err := (&fixes.DirectoryPackageMismatch{}).Fix(
		&fixes.FixCandidate{Filename: file, Contents: text, RegoVersion: ver},
		&fixes.RuntimeOptions{BaseDir: wsRoot, Config: e.cfg[exclude]})
	if err != nil {
		return "error", "", trunc(err.Error())
	}
	if len(res) == 0 || res[0].Rename == nil {
		return "none", "", ""
	}
	return "move", res[0].Rename.ToPath, ""
}

func trimTest(s string) string { return strings.TrimSuffix(s, "_test") }

// placements: directories built syntactically from the components (as written, last trimmed, every one trimmed,
// first trimmed, one level short, one level deeper), a wrong directory, the workspace root, and wherever the fix
// sends the file from the wrong directory
func dpmPlacements(comps []string) [][2]string {
	mapped := func(f func(i int, c string) string) string {
		var o []string
		for i, c := range comps {
			o = append(o, f(i, c))
		}
		return filepath.Join(o...)
	}
	n := len(comps)
	out := [][2]string{
		{"as-written", mapped(func(_ int, c string) string { return c })},
		{"last-trimmed", mapped(func(i int, c string) string {
			if i == n-1 {
				return trimTest(c)
			}
			return c
		})},
		{"all-trimmed", mapped(func(_ int, c string) string { return trimTest(c) })},
		{"first-trimmed", mapped(func(i int, c string) string {
			if i == 0 {
				return trimTest(c)
			}
			return c
		})},
		{"one-short", filepath.Join(comps[:n-1]...)},
		{"deeper", filepath.Join("sub", mapped(func(_ int, c string) string { return c }))},
		{"deeper-last-trimmed", filepath.Join("sub", mapped(func(i int, c string) string {
			if i == n-1 {
				return trimTest(c)
			}
			return c
		}))},
		{"wrong", "somewhere/else"},
		{"root", ""},
	}
	return out
}

func (e *dpmEnv) run(id int, comps []string, exclude, v0 bool) DpmCase {
	c := DpmCase{Kind: "dpm", ID: id, Pkg: comps, Exclude: exclude, V0: v0}
	c.Text = renderPackage(comps) + "\n\nx := 1\n"
	opts := ast.ParserOptions{RegoVersion: ast.RegoV1}
	if v0 {
		opts.RegoVersion = ast.RegoV0
	}
	m, err := ast.ParseModuleWithOpts("p.rego", c.Text, opts)
	if err != nil {
		c.Err = trunc(err.Error())
		return c
	}
	// the components really are the package path that was meant
	if len(m.Package.Path) != len(comps)+1 {
		c.Err = "package path has another length than the components"
		return c
	}
	for i, t := range m.Package.Path[1:] {
		if s, ok := t.Value.(ast.String); !ok || string(s) != comps[i] {
			c.Err = "package path differs from the components"
			return c
		}
	}
	c.Parses = true
	seen := map[string]bool{}
	add := func(why, dir string) {
		file := filepath.Join(wsRoot, dir, "x.rego")
		if seen[file] {
			return
		}
		seen[file] = true
		p := DpmPlace{Why: why, File: file}
		p.Rule = e.ruleAt(file, c.Text, v0, exclude)
		p.Fix, p.To, p.FixErr = e.fixAt(file, c.Text, v0, exclude)
		c.Places = append(c.Places, p)
	}
	for _, pl := range dpmPlacements(comps) {
		add(pl[0], pl[1])
	}
	// wherever the fix sends the file from a wrong directory: the rule must accept it there
	var targets []string
	for _, p := range c.Places {
		if p.Fix == "move" && strings.HasPrefix(p.To, wsRoot+"/") && filepath.Base(p.To) == "x.rego" {
			targets = append(targets, filepath.Dir(strings.TrimPrefix(p.To, wsRoot+"/")))
		}
	}
	sort.Strings(targets)
	for _, t := range targets {
		if t == "." {
			t = ""
		}
		add("fix-target", t)
	}
	return c
}

// component pools: plain names, names ending in _test, names that ARE or contain the suffix in other positions,
// names needing brackets (dash: handled by the fix; dot, blank, digit first: the fix refuses), keywords
var dpmPlain = []string{"authz", "p", "helpers", "rules_v2", "x1", "Test", "test", "tests", "testing", "contest", "a_b"}
var dpmTest = []string{"authz_test", "p_test", "helpers_test", "test_test", "a_test_test", "my_tests_test"}
var dpmOdd = []string{"_test", "__test", "_test_", "test_", "_tests", "t_test_x", "_", "_testx"}
var dpmQuoted = []string{"my-pkg", "my-pkg_test", "with-dash-", "a-b-c", "-lead", "in", "if", "contains"}
var dpmRefused = []string{"a.b", "a.b_test", "1abc", "has space", "café", "sl/ash", "", "quo\"te"}

func dpmComponent(r *hutil.Rng, first bool) string {
	for {
		var c string
		switch x := r.Below(20); {
		case x < 8:
			c = hutil.Choice(r, dpmPlain)
		case x < 13:
			c = hutil.Choice(r, dpmTest)
		case x < 16:
			c = hutil.Choice(r, dpmOdd)
		case x < 19:
			c = hutil.Choice(r, dpmQuoted)
		default:
			c = hutil.Choice(r, dpmRefused)
		}
		if first && (!identRe.MatchString(c) || regoKeywords[c] || c == "_") {
			continue // the first component is written as a variable (and "_" there is the wildcard, not a name)
		}
		return c
	}
}

func dpmCases(r *hutil.Rng, n int) [][]string {
	// fixed corner cases first (every position of a _test component in paths of 1-3 components, the bare suffix,
	// quoted components), then drawn ones
	out := [][]string{
		{"p"}, {"p_test"}, {"_test"}, {"test"}, {"p", "q"}, {"p", "q_test"}, {"p_test", "q"}, {"p_test", "q_test"},
		{"p", "_test"}, {"_test", "q"}, {"p", "q", "r_test"}, {"p", "q_test", "r"}, {"p_test", "q", "r"},
		{"p_test", "q_test", "r_test"}, {"p", "my-pkg"}, {"p", "my-pkg_test"}, {"p", "my-pkg_test", "q"}, {"p", "a.b"},
		{"p", "a.b_test"}, {"p_test_test"}, {"p", "test"}, {"p", "__test"},
	}
	seen := map[string]bool{}
	for _, c := range out {
		seen[strings.Join(c, "\x00")] = true
	}
	for tries := 0; len(out) < n && tries < 50*n; tries++ {
		k := 1 + r.Below(4)
		var c []string
		for i := 0; i < k; i++ {
			c = append(c, dpmComponent(r, i == 0))
		}
		key := strings.Join(c, "\x00")
		if seen[key] {
			continue
		}
		seen[key] = true
		out = append(out, c)
	}
	return out
}
