// C02 harness: builds directory trees in a temp dir and records what the real
// config.FilterIgnoredPaths and Linter.Lint do with them (discovered list, files_scanned,
// summary), tabulates the glob oracle with the real matcher, evaluates the specification of
// discovery independently in Go (failing-input search), and compares batch runs with the runs
// over every block of every partition of small file sets.  The composition workspaces are (a) the
// C01 generator's, (b) hand-written modules that trigger the single-file findings of the rules that
// define both `report` and `aggregate` (corpus/C02/pool_triggers.json), (c) the "Avoid" examples of
// docs/rules (a broad sample of ordinary rules), linted with every rule enabled.  For every file
// of a composition workspace the lint query is also evaluated directly with and without the
// "collect" operation (H_ops of c02_single_file_compose, rule by rule).  (d) size boundaries: workspaces
// of N files, N across and around powers of two and typical pool sizes, every file with a violation
// only it has; one run over all N files, the blocks of a partition, some files alone (runSized).
//
// usage: c02 <out.jsonl> <tier> <workdir> <extra-dir-names,comma> [fixed-trees.json [only]]
package main

import (
	"context"
	"encoding/json"
	"fmt"
	"io"
	"log"
	"os"
	"path"
	"path/filepath"
	"sort"
	"strings"
	"sync"
	"time"

	rbundle "github.com/styrainc/regal/bundle"
	"github.com/styrainc/regal/pkg/config"
	"github.com/styrainc/regal/pkg/linter"
	"github.com/styrainc/regal/pkg/report"
	"github.com/styrainc/regal/pkg/rules"

	"verifharness/cmd/c01/probe"
	"verifharness/hutil"
)

// ---------------------------------------------------------------- trees

type Node struct {
	Name     string  `json:"name"`
	Dir      bool    `json:"dir"`
	Children []*Node `json:"children,omitempty"`
	Content  string  `json:"content,omitempty"`
}

var specSkip = map[string]bool{".git": true, ".idea": true, "node_modules": true}

const specExt = ".rego"

var dirNames = []string{"a", "b", "c", "ab", ".git", "node_modules", ".idea", "x.rego", "d.e", "git", ".github"}
var fileNames = []string{"p.rego", "q.rego", "r.rego", "v.rego", "n.txt", "s.rego.bak", ".rego", "t.REGO", "rego", "u.json", ".git", "w.rego", "p.reg", "prego"}

func sanitize(s string) string {
	var b strings.Builder
	for _, c := range s {
		if (c >= 'a' && c <= 'z') || (c >= '0' && c <= '9') {
			b.WriteRune(c)
		} else {
			b.WriteRune('_')
		}
	}
	return b.String()
}

func genDir(rng *hutil.Rng, name, rel string, depth, maxDepth int, extra []string, uniq *int) *Node {
	n := &Node{Name: name, Dir: true}
	used := map[string]bool{}
	cnt := 1 + rng.Below(4)
	for i := 0; i < cnt; i++ {
		if depth < maxDepth && rng.Below(5) < 2 {
			pool := dirNames
			if len(extra) > 0 && rng.Below(3) == 0 {
				pool = extra
			}
			nm := hutil.Choice(rng, pool)
			if used[nm] {
				continue
			}
			used[nm] = true
			n.Children = append(n.Children, genDir(rng, nm, rel+"/"+nm, depth+1, maxDepth, extra, uniq))
		} else {
			nm := hutil.Choice(rng, fileNames)
			if used[nm] {
				continue
			}
			used[nm] = true
			*uniq++
			var content string
			if strings.HasSuffix(nm, ".rego") {
				content = fmt.Sprintf("package t.%s_%d\n\n", sanitize(rel+"_"+nm), *uniq)
				switch rng.Below(4) {
				case 0:
					content += "camelCase := 1\n"
				case 1:
					content += "import data.nowhere.x\n\nallow if {\n\tinput.x == 1\n}\n"
				default:
					content += "allow if {\n\tinput.x == 1\n}\n"
				}
			} else {
				content = "this is { not rego\n"
			}
			n.Children = append(n.Children, &Node{Name: nm, Content: content})
		}
	}
	sort.Slice(n.Children, func(i, j int) bool { return n.Children[i].Name < n.Children[j].Name })
	return n
}

func (n *Node) write(dir string) error {
	p := filepath.Join(dir, n.Name)
	if !n.Dir {
		return os.WriteFile(p, []byte(n.Content), 0o644)
	}
	if err := os.MkdirAll(p, 0o755); err != nil {
		return err
	}
	for _, c := range n.Children {
		if err := c.write(p); err != nil {
			return err
		}
	}
	return nil
}

type entry struct {
	rel  string
	node *Node
}

func (n *Node) all(rel string, out *[]entry) {
	*out = append(*out, entry{rel, n})
	for _, c := range n.Children {
		c.all(rel+"/"+c.Name, out)
	}
}

func (n *Node) find(comps []string) *Node {
	if len(comps) == 0 {
		return n
	}
	for _, c := range n.Children {
		if c.Name == comps[0] {
			return c.find(comps[1:])
		}
	}
	return nil
}

// ---------------------------------------------------------------- the specification, in Go

func osBase(p string) string {
	for len(p) > 1 && p[len(p)-1] == '/' {
		p = p[:len(p)-1]
	}
	if i := strings.LastIndex(p, "/"); i >= 0 && len(p) > 1 {
		p = p[i+1:]
	}
	return p
}

func specWalk(pth, name string, n *Node, out *[]string) {
	if !n.Dir {
		if strings.HasSuffix(pth, specExt) {
			*out = append(*out, pth)
		}
		return
	}
	if specSkip[name] {
		return
	}
	for _, c := range n.Children {
		specWalk(filepath.Join(pth, c.Name), c.Name, c, out)
	}
}

// specDiscover: expected result of FilterIgnoredPaths before the ignore patterns; ok=false when
// an argument does not exist
func specDiscover(top *Node, wabs string, args []string) ([]string, bool) {
	var out []string
	ok := true
	for _, a := range args {
		c := path.Clean(a)
		if path.IsAbs(c) {
			c = strings.TrimPrefix(c, wabs+"/")
		}
		comps := strings.Split(c, "/")
		if comps[0] != top.Name {
			ok = false
			continue
		}
		n := top.find(comps[1:])
		if n == nil || a == "" || (!n.Dir && strings.HasSuffix(a, "/")) {
			ok = false
			continue
		}
		specWalk(a, osBase(a), n, &out)
	}
	return out, ok
}

// ---------------------------------------------------------------- observations

type TreeCase struct {
	Kind     string                     `json:"kind"`
	ID       int                        `json:"id"`
	Tree     *Node                      `json:"tree"`
	Args     []string                   `json:"args"` // canonical: the workdir spelled /R
	Ignore   []string                   `json:"ignore"`
	Excl     map[string]map[string]bool `json:"excl"`
	Bad      []string                   `json:"bad"`
	Filtered []string                   `json:"filtered"`
	FiltErr  bool                       `json:"filt_err"`
	Linted   bool                       `json:"linted"`
	Scanned  int                        `json:"scanned"`
	LintErr  string                     `json:"lint_err"`
	Spec     []string                   `json:"spec"` // what the Go rendering of the specification expects
	SpecOK   bool                       `json:"spec_ok"`
	SpecBad  string                     `json:"spec_bad"` // non-empty: the implementation contradicts the specification
	Summary  *SumCase                   `json:"summary,omitempty"`
	NoLint   bool                       `json:"nolint,omitempty"` // fixed cases only: skip the lint run
}

type SumCase struct {
	Kind      string         `json:"kind"`
	ViolFiles []string       `json:"viol_files"`
	Notices   []probe.Notice `json:"notices"`
	Scanned   int            `json:"scanned"`
	Failed    int            `json:"failed"`
	Skipped   int            `json:"skipped"`
	Num       int            `json:"num"`
	Bad       string         `json:"bad"`
}

func sumCase(r report.Report, rel probe.Rel) *SumCase {
	s := &SumCase{Kind: "report", ViolFiles: []string{}, Notices: []probe.Notice{}, Scanned: r.Summary.FilesScanned,
		Failed: r.Summary.FilesFailed, Skipped: r.Summary.RulesSkipped, Num: r.Summary.NumViolations}
	files := map[string]bool{}
	for _, v := range r.Violations {
		s.ViolFiles = append(s.ViolFiles, rel(v.Location.File))
		files[v.Location.File] = true
	}
	skipped := 0
	seen := map[string]bool{}
	dup := false
	for _, n := range r.Notices {
		cn := probe.CanonNotice(n)
		s.Notices = append(s.Notices, cn)
		if n.Severity != "none" {
			skipped++
		}
		if seen[cn.Key+"|"+cn.Sev] {
			dup = true
		}
		seen[cn.Key+"|"+cn.Sev] = true
	}
	switch {
	case s.Num != len(r.Violations):
		s.Bad = fmt.Sprintf("num_violations=%d but %d violations listed", s.Num, len(r.Violations))
	case s.Failed != len(files):
		s.Bad = fmt.Sprintf("files_failed=%d but violations name %d distinct files", s.Failed, len(files))
	case s.Skipped != skipped:
		s.Bad = fmt.Sprintf("rules_skipped=%d but %d notices have a severity other than none", s.Skipped, skipped)
	case dup:
		s.Bad = "the same notice is listed twice"
	}
	return s
}

var ignorePool = []string{"", "a/", "*.txt", "q.rego", "**/b/**", "%T/a/*.rego", "/%T/c/", "ab", "p.*", "%T/**/v.rego", "c"}

func spell(rng *hutil.Rng, rel string, isDir bool, wabs string) string {
	switch rng.Below(8) {
	case 0:
		return "./" + rel
	case 1:
		if isDir {
			return rel + "/"
		}
	case 2:
		return filepath.Join(wabs, rel)
	case 3:
		if isDir {
			return rel + "/."
		}
	case 4:
		if i := strings.LastIndex(rel, "/"); i > 0 {
			return rel[:i] + "/../" + path.Base(rel[:i]) + rel[i:]
		}
	case 5:
		return strings.Replace(rel, "/", "//", 1)
	}
	return rel
}

func excludedBy(pattern, file string) bool {
	res, err := config.FilterIgnoredPaths([]string{file}, []string{pattern}, false, "")
	return err == nil && len(res) == 0
}

func runTree(ctx context.Context, rng *hutil.Rng, id int, wabs string, extra []string, lint bool, fixed *TreeCase) TreeCase {
	tc := TreeCase{Kind: "tree", ID: id, Excl: map[string]map[string]bool{}, Bad: []string{}, Ignore: []string{}}
	canon := func(s string) string {
		if strings.HasPrefix(s, wabs) {
			return "/R" + s[len(wabs):]
		}
		return s
	}
	real := func(s string) string {
		if strings.HasPrefix(s, "/R") {
			return wabs + s[2:]
		}
		return s
	}
	var top *Node
	var args []string
	if fixed != nil {
		top = fixed.Tree
		tc.Ignore = fixed.Ignore
		for _, a := range fixed.Args {
			args = append(args, real(a))
		}
	} else {
		uniq := 0
		name := fmt.Sprintf("t%d", id)
		top = genDir(rng, name, name, 0, 3, extra, &uniq)
		var ents []entry
		top.all(top.Name, &ents)
		// one tree in ten has a .rego file that does not parse
		if rng.Below(10) == 0 {
			for _, e := range ents {
				if !e.node.Dir && strings.HasSuffix(e.node.Name, ".rego") {
					e.node.Content = "package broken\n\nallow if {\n"
					break
				}
			}
		}
		na := 1 + rng.Below(3)
		for i := 0; i < na; i++ {
			e := hutil.Choice(rng, ents)
			if i == 0 && rng.Below(2) == 0 {
				e = ents[0]
			}
			args = append(args, spell(rng, e.rel, e.node.Dir, wabs))
		}
		if rng.Below(20) == 0 {
			args = append(args, top.Name+"/nope")
		}
		if rng.Below(4) == 0 {
			args = append(args, args[0]) // duplicate
		}
		ni := rng.Below(3)
		for i := 0; i < ni; i++ {
			tc.Ignore = append(tc.Ignore, strings.ReplaceAll(hutil.Choice(rng, ignorePool), "%T", top.Name))
		}
	}
	tc.Tree = top
	_ = os.RemoveAll(filepath.Join(wabs, top.Name))
	if err := top.write(wabs); err != nil {
		panic(err)
	}
	for _, a := range args {
		tc.Args = append(tc.Args, canon(a))
	}
	// what is walked before the ignore patterns apply (also the domain of the glob table)
	walked, werr := config.FilterIgnoredPaths(args, nil, true, "")
	filtered, ferr := config.FilterIgnoredPaths(args, tc.Ignore, true, "")
	tc.FiltErr = ferr != nil
	tc.Filtered = []string{}
	for _, f := range filtered {
		tc.Filtered = append(tc.Filtered, canon(f))
	}
	spec, specOK := specDiscover(top, wabs, args)
	tc.SpecOK = specOK
	tc.Spec = []string{}
	domain := map[string]bool{}
	for _, f := range walked {
		domain[f] = true
	}
	for _, f := range spec {
		domain[f] = true
	}
	for _, p := range tc.Ignore {
		if p == "" {
			continue
		}
		row := map[string]bool{}
		for f := range domain {
			row[canon(f)] = excludedBy(p, f)
		}
		tc.Excl[p] = row
	}
	var specFiltered []string
	for _, f := range spec {
		ex := false
		for _, p := range tc.Ignore {
			if p != "" && tc.Excl[p][canon(f)] {
				ex = true
			}
		}
		if !ex {
			specFiltered = append(specFiltered, f)
			tc.Spec = append(tc.Spec, canon(f))
		}
	}
	// the specification on the implementation's own output
	switch {
	case !specOK && ferr == nil:
		tc.SpecBad = "an argument does not exist but FilterIgnoredPaths returned no error"
	case specOK && ferr != nil:
		tc.SpecBad = "every argument exists but FilterIgnoredPaths failed: " + ferr.Error()
	case specOK && werr == nil:
		got := map[string]int{}
		for _, f := range filtered {
			got[f]++
		}
		want := map[string]int{}
		for _, f := range specFiltered {
			want[f]++
		}
		// deterministic; a file that is not discovered at all outranks one that is discovered fewer
		// times than the (overlapping) arguments reach it; an unexpected file ranks in between
		var names []string
		for f := range want {
			names = append(names, f)
		}
		for f := range got {
			if _, ok := want[f]; !ok {
				names = append(names, f)
			}
		}
		sort.Strings(names)
		rank := 0
		for _, f := range names {
			switch {
			case want[f] > 0 && got[f] == 0 && rank < 3:
				rank, tc.SpecBad = 3, "silently skipped: "+canon(f)
			case got[f] < want[f] && rank < 1:
				rank, tc.SpecBad = 1, fmt.Sprintf("discovered %d times, but the arguments reach it %d times: %s", got[f], want[f], canon(f))
			case want[f] < got[f] && rank < 2:
				rank, tc.SpecBad = 2, "unexpectedly included: "+canon(f)
			}
		}
	}
	// which discovered files do not parse
	bad := map[string]bool{}
	var ents []entry
	top.all(top.Name, &ents)
	for _, e := range ents {
		if !e.node.Dir && strings.HasPrefix(e.node.Content, "package broken") {
			bad[e.rel] = true
			bad[filepath.Join(wabs, e.rel)] = true
		}
	}
	for _, f := range filtered {
		if bad[filepath.Clean(f)] {
			tc.Bad = append(tc.Bad, canon(filepath.Clean(f)))
		}
	}
	if lint && ferr == nil {
		tc.Linted = true
		l := linter.NewLinter().WithInputPaths(args)
		if len(tc.Ignore) > 0 {
			l = l.WithIgnore(tc.Ignore)
		}
		rep, err := l.Lint(ctx)
		if err != nil {
			tc.LintErr = err.Error()
		} else {
			tc.Scanned = rep.Summary.FilesScanned
			tc.Summary = sumCase(rep, canon)
			distinct := map[string]bool{}
			for _, f := range filtered {
				distinct[filepath.Clean(f)] = true
			}
			if rep.Summary.FilesScanned != len(distinct) && tc.Summary.Bad == "" {
				tc.Summary.Bad = fmt.Sprintf("files_scanned=%d but FilterIgnoredPaths found %d distinct files", rep.Summary.FilesScanned, len(distinct))
			}
		}
	}
	return tc
}

// ---------------------------------------------------------------- composition

type SubsetRun struct {
	Files   []string            `json:"files"`
	PerFile map[string][]string `json:"per_file"` // non-aggregate violation keys per file
	Other   []string            `json:"other"`    // non-aggregate violations located in no file of the run
	NAgg    int                 `json:"n_agg"`
	Err     string              `json:"err,omitempty"`
}

// OpsRow: what the lint query says about one file for one rule without / with the "collect"
// operation (only rows where either is non-empty).
type OpsRow struct {
	Rule string       `json:"rule"`
	File string       `json:"file"`
	Off  []probe.Viol `json:"off"`
	On   []probe.Viol `json:"on"`
}

// Diff: the first batch-vs-single difference of a case, minimised.
type Diff struct {
	File    string   `json:"file"`
	Block   []string `json:"block"`      // the (minimised) run in which File is judged differently
	InBlock []string `json:"in_block"`   // its non-aggregate violations in that run
	Alone   []string `json:"alone"`      // ... when linted alone
	Rules   []string `json:"rules"`      // the rules whose findings differ
	From    []string `json:"from_block"` // the run in which the difference was first seen
}

type ComposeCase struct {
	Kind       string           `json:"kind"`
	ID         int              `json:"id"`
	Source     string           `json:"source"`
	WS         probe.Workspace  `json:"ws"`
	Subsets    []SubsetRun      `json:"subsets"`
	Partitions int              `json:"partitions"`
	Mismatch   []string         `json:"mismatch"`
	Summaries  []*SumCase       `json:"summaries"`
	Ops        []OpsRow         `json:"ops"`
	OpsErr     []string         `json:"ops_err"`
	ProbeOnly  bool             `json:"probe_only,omitempty"` // quick tier: only the lint query with/without collect, no Lint runs
	Diff       *Diff            `json:"diff,omitempty"`
	MinWS      *probe.Workspace `json:"min_ws,omitempty"`
	// sized workspaces: the files for which the lint query was tabulated (Ops) and which were linted alone up front;
	// nil = every file of the workspace
	Probed  []string `json:"probed,omitempty"`
	Sized   int      `json:"sized,omitempty"` // number of files of a size-boundary workspace
	Opts    []string `json:"opts,omitempty"`  // linter options switched on for every run of the case
	Seconds float64  `json:"seconds"`         // wall time of the case (evidence only)
}

func lintSubset(ctx context.Context, ws probe.Workspace, root string, files []string) (SubsetRun, *SumCase) {
	sr := SubsetRun{Files: files, PerFile: map[string][]string{}, Other: []string{}}
	l, err := ws.NewLinter()
	if err != nil {
		sr.Err = err.Error()
		return sr, nil
	}
	var paths []string
	for _, f := range files {
		paths = append(paths, filepath.Join(root, f))
	}
	rel := func(s string) string { return strings.TrimPrefix(s, root+"/") }
	rep, err := l.WithInputPaths(paths).Lint(ctx)
	if err != nil {
		sr.Err = err.Error()
		return sr, nil
	}
	in := map[string]bool{}
	for _, f := range files {
		in[f] = true
		sr.PerFile[f] = []string{}
	}
	for _, v := range rep.Violations {
		if v.IsAggregate {
			sr.NAgg++
			continue
		}
		cv := probe.CanonViol(v, rel)
		if in[cv.File] {
			sr.PerFile[cv.File] = append(sr.PerFile[cv.File], cv.Key)
		} else {
			sr.Other = append(sr.Other, cv.File+"|"+cv.Key)
		}
	}
	for f := range sr.PerFile {
		sort.Strings(sr.PerFile[f])
	}
	return sr, sumCase(rep, rel)
}

func subsetKey(fs []string) string { return strings.Join(fs, "\x00") }

func ruleOfKey(k string) string {
	if i := strings.Index(k, "@"); i >= 0 {
		return k[:i]
	}
	return k
}

// rulesDiffering: the rules whose multisets of findings differ between two sorted key lists
func rulesDiffering(a, b []string) []string {
	cnt := map[string]int{}
	for _, k := range a {
		cnt[k]++
	}
	for _, k := range b {
		cnt[k]--
	}
	set := map[string]bool{}
	for k, c := range cnt {
		if c != 0 {
			set[ruleOfKey(k)] = true
		}
	}
	out := []string{}
	for r := range set {
		out = append(out, r)
	}
	sort.Strings(out)
	return out
}

func sameKeys(a, b []string) bool {
	x, _ := json.Marshal(a)
	y, _ := json.Marshal(b)
	return string(x) == string(y)
}

// the lint query evaluated per file, one prepared query per (configuration, custom rules)
type oracleCache struct {
	mu sync.Mutex
	m  map[string]*probe.Oracle
}

func (oc *oracleCache) get(ctx context.Context, ws probe.Workspace) (*probe.Oracle, error) {
	oc.mu.Lock()
	defer oc.mu.Unlock()
	k := fmt.Sprintf("%s|%v", ws.Config, ws.Custom)
	if o, ok := oc.m[k]; ok {
		return o, nil
	}
	o, err := probe.NewOracle(ctx, ws)
	if err != nil {
		return nil, err
	}
	oc.m[k] = o
	return o, nil
}

type runner struct {
	sem     chan struct{} // bounds the number of concurrent Lint calls of the whole harness
	oracles *oracleCache
	tier    string
}

func (rn *runner) lint(ctx context.Context, ws probe.Workspace, root string, files []string) (SubsetRun, *SumCase) {
	rn.sem <- struct{}{}
	defer func() { <-rn.sem }()
	return lintSubset(ctx, ws, root, files)
}

// opsProbe: H_ops / H_loc of the model, file by file and rule by rule
func (rn *runner) opsProbe(ctx context.Context, cc *ComposeCase, root string, names []string) {
	cc.Ops = []OpsRow{}
	cc.OpsErr = []string{}
	orc, err := rn.oracles.get(ctx, cc.WS)
	if err != nil {
		cc.OpsErr = append(cc.OpsErr, "oracle: "+err.Error())
		return
	}
	rel := func(s string) string { return strings.TrimPrefix(s, root+"/") }
	rows := make([][]OpsRow, len(names))
	errs := make([]string, len(names))
	var wg sync.WaitGroup
	for i, f := range names {
		wg.Add(1)
		go func(i int, f string) {
			defer wg.Done()
			rn.sem <- struct{}{}
			defer func() { <-rn.sem }()
			by := map[string]*OpsRow{}
			for _, collect := range []bool{false, true} {
				fr, err := orc.EvalFile(ctx, filepath.Join(root, f), collect, rel)
				if err != nil {
					errs[i] = f + ": " + err.Error()
					return
				}
				for _, v := range fr.Viol {
					r := ruleOfKey(v.Key)
					row := by[r]
					if row == nil {
						row = &OpsRow{Rule: r, File: f, Off: []probe.Viol{}, On: []probe.Viol{}}
						by[r] = row
					}
					if collect {
						row.On = append(row.On, v)
					} else {
						row.Off = append(row.Off, v)
					}
				}
			}
			rs := make([]string, 0, len(by))
			for r := range by {
				rs = append(rs, r)
			}
			sort.Strings(rs)
			for _, r := range rs {
				probe.SortViol(by[r].Off)
				probe.SortViol(by[r].On)
				rows[i] = append(rows[i], *by[r])
			}
		}(i, f)
	}
	wg.Wait()
	for i := range names {
		cc.Ops = append(cc.Ops, rows[i]...)
		if errs[i] != "" {
			cc.OpsErr = append(cc.OpsErr, errs[i])
		}
	}
}

func (rn *runner) runCompose(ctx context.Context, rng *hutil.Rng, id int, ws probe.Workspace, source string, probeOnly bool) ComposeCase {
	cc := ComposeCase{Kind: "compose", ID: id, Source: source, WS: ws, Mismatch: []string{}, ProbeOnly: probeOnly}
	root := fmt.Sprintf("c%d", id)
	_ = os.RemoveAll(root)
	if err := ws.Write(root); err != nil {
		panic(err)
	}
	var names []string
	for _, f := range ws.Files {
		names = append(names, f.Name)
	}
	sort.Strings(names)
	n := len(names)
	want := map[string][]string{}
	add := func(fs []string) {
		k := subsetKey(fs)
		if _, ok := want[k]; !ok {
			want[k] = fs
		}
	}
	var partitions [][][]string
	if n <= 4 {
		// every partition of the set: all blocks are all non-empty subsets
		var rec func(i int, blocks [][]string)
		rec = func(i int, blocks [][]string) {
			if i == n {
				cp := make([][]string, len(blocks))
				for j := range blocks {
					cp[j] = append([]string{}, blocks[j]...)
				}
				partitions = append(partitions, cp)
				return
			}
			for j := range blocks {
				blocks[j] = append(blocks[j], names[i])
				rec(i+1, blocks)
				blocks[j] = blocks[j][:len(blocks[j])-1]
			}
			rec(i+1, append(blocks, []string{names[i]}))
		}
		rec(0, nil)
	} else {
		np := 2
		if rn.tier != "quick" {
			np = 6
		}
		partitions = append(partitions, [][]string{append([]string{}, names...)})
		for p := 0; p < np; p++ {
			k := 2 + rng.Below(3)
			blocks := make([][]string, k)
			for _, f := range names {
				b := rng.Below(k)
				blocks[b] = append(blocks[b], f)
			}
			var nb [][]string
			for _, b := range blocks {
				if len(b) > 0 {
					nb = append(nb, b)
				}
			}
			partitions = append(partitions, nb)
		}
	}
	if probeOnly {
		partitions = nil
	} else {
		for _, f := range names {
			add([]string{f})
		}
	}
	for _, p := range partitions {
		for _, b := range p {
			add(b)
		}
	}
	cc.Partitions = len(partitions)
	keys := make([]string, 0, len(want))
	for k := range want {
		keys = append(keys, k)
	}
	sort.Strings(keys)
	results := make([]SubsetRun, len(keys))
	sums := make([]*SumCase, len(keys))
	var wg sync.WaitGroup
	for i, k := range keys {
		wg.Add(1)
		go func(i int, fs []string) {
			defer wg.Done()
			results[i], sums[i] = rn.lint(ctx, ws, root, fs)
		}(i, want[k])
	}
	wg.Add(1)
	go func() {
		defer wg.Done()
		rn.opsProbe(ctx, &cc, root, names)
	}()
	wg.Wait()
	byKey := map[string]SubsetRun{}
	for i, k := range keys {
		byKey[k] = results[i]
		if sums[i] != nil {
			cc.Summaries = append(cc.Summaries, sums[i])
		}
	}
	cc.Subsets = results
	// every block of every partition: per file, the same violations as the file alone
	// (smallest runs first, so that the first difference is already a small one)
	order := make([]int, len(results))
	for i := range order {
		order[i] = i
	}
	sort.SliceStable(order, func(a, b int) bool { return len(results[order[a]].Files) < len(results[order[b]].Files) })
	for _, i := range order {
		r := results[i]
		if r.Err != "" {
			cc.Mismatch = append(cc.Mismatch, fmt.Sprintf("lint of %v failed: %s", r.Files, r.Err))
			continue
		}
		if len(r.Other) > 0 {
			cc.Mismatch = append(cc.Mismatch, fmt.Sprintf("run over %v reports per-file violations located elsewhere: %v", r.Files, r.Other))
		}
		for _, f := range r.Files {
			single := byKey[subsetKey([]string{f})]
			if single.Err != "" {
				continue // reported above
			}
			if !sameKeys(r.PerFile[f], single.PerFile[f]) {
				a, _ := json.Marshal(r.PerFile[f])
				b, _ := json.Marshal(single.PerFile[f])
				cc.Mismatch = append(cc.Mismatch, fmt.Sprintf("file %s: in the run over %v: %s; alone: %s", f, r.Files, a, b))
				if cc.Diff == nil {
					cc.Diff = rn.shrinkDiff(ctx, ws, root, r, f, single)
				}
			}
		}
	}
	// a workspace that asks for repetitions (replay of a size-boundary workspace; options that make the evaluation
	// of the files of one run share state): the whole set again, every file compared with its alone run each time
	for rep := 1; rep < ws.Repeat && !probeOnly && n > 1 && cc.Diff == nil; rep++ {
		r, sm := rn.lint(ctx, ws, root, names)
		if sm != nil {
			cc.Summaries = append(cc.Summaries, sm)
		}
		if r.Err != "" {
			cc.Mismatch = append(cc.Mismatch, fmt.Sprintf("lint of %v failed: %s", r.Files, r.Err))
			continue
		}
		for _, f := range r.Files {
			single := byKey[subsetKey([]string{f})]
			if single.Err == "" && !sameKeys(r.PerFile[f], single.PerFile[f]) {
				a, _ := json.Marshal(r.PerFile[f])
				b, _ := json.Marshal(single.PerFile[f])
				cc.Mismatch = append(cc.Mismatch, fmt.Sprintf("file %s: in repetition %d of the run over all %d files: %s; alone: %s", f, rep, len(r.Files), a, b))
				if cc.Diff == nil {
					cc.Diff = &Diff{File: f, Block: r.Files, InBlock: r.PerFile[f], Alone: single.PerFile[f],
						Rules: rulesDiffering(r.PerFile[f], single.PerFile[f]), From: r.Files}
				}
			}
		}
	}
	if cc.Diff != nil {
		keep := map[string]bool{}
		for _, f := range cc.Diff.Block {
			keep[f] = true
		}
		m := ws // every field (configuration, linter options, repeat count) but the files
		m.Files = nil
		for _, f := range ws.Files {
			if keep[f.Name] {
				m.Files = append(m.Files, f)
			}
		}
		cc.MinWS = &m
	}
	return cc
}

// shrinkDiff: drop files from the run while file f is still judged differently than alone
func (rn *runner) shrinkDiff(ctx context.Context, ws probe.Workspace, root string, r SubsetRun, f string, single SubsetRun) *Diff {
	cur := r
	for changed := true; changed && len(cur.Files) > 2; {
		changed = false
		for i, g := range cur.Files {
			if g == f {
				continue
			}
			fs := append(append([]string{}, cur.Files[:i]...), cur.Files[i+1:]...)
			t, _ := rn.lint(ctx, ws, root, fs)
			if t.Err == "" && !sameKeys(t.PerFile[f], single.PerFile[f]) {
				cur = t
				changed = true
				break
			}
		}
	}
	return &Diff{File: f, Block: cur.Files, InBlock: cur.PerFile[f], Alone: single.PerFile[f],
		Rules: rulesDiffering(cur.PerFile[f], single.PerFile[f]), From: r.Files}
}

// ---------------------------------------------------------------- size boundaries
//
// Whatever splits the files of ONE run into shares (worker pools, chunks, batches of the per-file evaluation)
// has its mistakes at the boundaries: the remainder of a division, the share of the last worker, one file more
// than a power of two.  Workspaces of N files for N across and around powers of two and typical pool sizes; every
// file carries a violation only it has (a constant condition over a number of its own, at a row that depends on the
// file), so "each file's single-file violations are present in the multi-file run" is checked per file and not only
// in sum.  One Lint call per workspace and one per block of a partition: the files share the query preparation.

type sizedExpect struct {
	Prefix string // "bugs/constant-condition@<row>:<col>:" of the violation only this file has
	Number int
}

func sizedWorkspace(id, n int, conf string) (probe.Workspace, map[string]sizedExpect) {
	ws := probe.Workspace{ID: id, Config: conf}
	exp := map[string]sizedExpect{}
	for i := 0; i < n; i++ {
		name := fmt.Sprintf("d%d/s%d/p%03d.rego", i%3, (i/3)%4, i)
		var b strings.Builder
		fmt.Fprintf(&b, "package sz.n%d.f%d\n\n", n, i)
		row := 3
		for j := 0; j < i%5; j++ { // files of different lengths: the evaluations do not finish in the order they start
			fmt.Fprintf(&b, "r%d := %d\n\n", j, 1000*i+j)
			row += 2
		}
		num := 100000 + i
		fmt.Fprintf(&b, "allow if {\n\t%d == %d\n\tinput.x\n}\n", num, num)
		ws.Files = append(ws.Files, probe.File{Name: name, Content: b.String()})
		exp[name] = sizedExpect{Prefix: fmt.Sprintf("bugs/constant-condition@%d:2:", row+1), Number: num}
	}
	return ws, exp
}

func countPrefix(keys []string, prefix string) int {
	n := 0
	for _, k := range keys {
		if strings.HasPrefix(k, prefix) {
			n++
		}
	}
	return n
}

// runSized: the whole workspace in one run, the blocks of one partition (sizes again around the boundaries), a few
// files alone up front (first and last in name order, one by the seed) and any file alone whose verdicts differ
// between two runs.  Per file: the known violation is there exactly once in every run, the violations are the same in
// every run the file takes part in, and equal to the alone run where there is one.
//
// round 3: opts = optional features of the linter switched on for every run of the workspace (alone runs included);
// repeats = how often the run over all N files is made; blocks = false leaves the partition out.
func (rn *runner) runSized(ctx context.Context, rng *hutil.Rng, id, n int, conf string, opts []string, repeats int, blocks, sequential bool) ComposeCase {
	ws, exp := sizedWorkspace(id, n, conf)
	ws.Opts = opts
	if repeats < 1 {
		repeats = 1
	}
	ws.Repeat = repeats
	src := "sized"
	if len(opts) > 0 {
		src = "sized-opts"
	}
	cc := ComposeCase{Kind: "compose", ID: id, Source: src, WS: ws, Mismatch: []string{}, Sized: n, Opts: opts}
	root := fmt.Sprintf("c%d", id)
	_ = os.RemoveAll(root)
	if err := ws.Write(root); err != nil {
		panic(err)
	}
	var names []string
	for _, f := range ws.Files {
		names = append(names, f.Name)
	}
	sort.Strings(names)
	runs := [][]string{}
	for r := 0; r < repeats; r++ {
		runs = append(runs, names)
	}
	if n >= 2 && blocks {
		k := 2
		if n >= 40 {
			k = 3
		}
		// contiguous shares of the sorted names, cut at places chosen by the seed
		cuts := map[int]bool{}
		for len(cuts) < k-1 {
			cuts[1+rng.Below(n-1)] = true
		}
		var cur []string
		for i, f := range names {
			if cuts[i] {
				runs = append(runs, cur)
				cur = nil
			}
			cur = append(cur, f)
		}
		runs = append(runs, cur)
		cc.Partitions = 2
	} else {
		cc.Partitions = 1
	}
	sample := map[string]bool{names[0]: true, names[n-1]: true, names[rng.Below(n)]: true}
	if len(opts) > 0 && rn.tier == "quick" {
		sample = map[string]bool{names[rng.Below(n)]: true, names[rng.Below(n)]: true}
	}
	for f := range sample {
		cc.Probed = append(cc.Probed, f)
	}
	sort.Strings(cc.Probed)
	want := map[string][]string{}
	runKeys := []string{} // one key per run, repetitions of the same file list get keys of their own
	for i, fs := range runs {
		k := subsetKey(fs)
		if _, dup := want[k]; dup {
			k = fmt.Sprintf("%s\x01rep%d", k, i)
		}
		want[k] = fs
		runKeys = append(runKeys, k)
	}
	for _, f := range cc.Probed {
		want[subsetKey([]string{f})] = []string{f}
	}
	keys := make([]string, 0, len(want))
	for k := range want {
		keys = append(keys, k)
	}
	sort.Strings(keys)
	results := make([]SubsetRun, len(keys))
	sums := make([]*SumCase, len(keys))
	var wg sync.WaitGroup
	for i, k := range keys {
		if sequential {
			results[i], sums[i] = rn.lint(ctx, ws, root, want[k])
			continue
		}
		wg.Add(1)
		go func(i int, fs []string) {
			defer wg.Done()
			results[i], sums[i] = rn.lint(ctx, ws, root, fs)
		}(i, want[k])
	}
	wg.Add(1)
	go func() {
		defer wg.Done()
		rn.opsProbe(ctx, &cc, root, cc.Probed)
	}()
	wg.Wait()
	byKey := map[string]SubsetRun{}
	for i, k := range keys {
		byKey[k] = results[i]
		if sums[i] != nil {
			cc.Summaries = append(cc.Summaries, sums[i])
			if sums[i].Scanned != len(want[k]) && sums[i].Bad == "" {
				sums[i].Bad = fmt.Sprintf("files_scanned=%d but the run was given %d files", sums[i].Scanned, len(want[k]))
			}
		}
	}
	alone := func(f string) SubsetRun {
		k := subsetKey([]string{f})
		if r, ok := byKey[k]; ok {
			return r
		}
		r, sm := rn.lint(ctx, ws, root, []string{f})
		byKey[k] = r
		results = append(results, r)
		if sm != nil {
			cc.Summaries = append(cc.Summaries, sm)
		}
		return r
	}
	// the multi-file runs, smallest first
	var multi []SubsetRun
	for i, fs := range runs {
		if len(fs) > 1 || n == 1 {
			multi = append(multi, byKey[runKeys[i]])
		}
	}
	sort.SliceStable(multi, func(a, b int) bool { return len(multi[a].Files) < len(multi[b].Files) })
	extraAlone := 0
	firstIn := map[string]SubsetRun{}
	for _, r := range multi {
		if r.Err != "" {
			cc.Mismatch = append(cc.Mismatch, fmt.Sprintf("lint of %d files failed: %s", len(r.Files), r.Err))
			continue
		}
		if len(r.Other) > 0 {
			cc.Mismatch = append(cc.Mismatch, fmt.Sprintf("run over %d files reports per-file violations located elsewhere: %v", len(r.Files), r.Other))
		}
		for _, f := range r.Files {
			suspicious := ""
			if c := countPrefix(r.PerFile[f], exp[f].Prefix); c != 1 {
				suspicious = fmt.Sprintf("file %s: its own violation %s... (constant condition %d == %d) is reported %d times in the run over %d files",
					f, exp[f].Prefix, exp[f].Number, exp[f].Number, c, len(r.Files))
			} else if prev, ok := firstIn[f]; ok && !sameKeys(prev.PerFile[f], r.PerFile[f]) {
				a, _ := json.Marshal(prev.PerFile[f])
				b, _ := json.Marshal(r.PerFile[f])
				suspicious = fmt.Sprintf("file %s: in the run over %d files: %s; in the run over %d files: %s", f, len(prev.Files), a, len(r.Files), b)
			}
			if _, ok := firstIn[f]; !ok {
				firstIn[f] = r
			}
			_, sampled := byKey[subsetKey([]string{f})]
			if suspicious == "" && !sampled {
				continue
			}
			if !sampled {
				if extraAlone >= 6 {
					cc.Mismatch = append(cc.Mismatch, suspicious)
					continue
				}
				extraAlone++
			}
			single := alone(f)
			if single.Err != "" {
				cc.Mismatch = append(cc.Mismatch, fmt.Sprintf("lint of [%s] failed: %s", f, single.Err))
				continue
			}
			if c := countPrefix(single.PerFile[f], exp[f].Prefix); c != 1 {
				cc.Mismatch = append(cc.Mismatch, fmt.Sprintf("file %s linted alone: its own violation %s... is reported %d times", f, exp[f].Prefix, c))
			}
			if !sameKeys(r.PerFile[f], single.PerFile[f]) {
				a, _ := json.Marshal(r.PerFile[f])
				b, _ := json.Marshal(single.PerFile[f])
				cc.Mismatch = append(cc.Mismatch, fmt.Sprintf("file %s: in the run over %d files: %s; alone: %s", f, len(r.Files), a, b))
				if cc.Diff == nil {
					cc.Diff = rn.shrinkDiffChunks(ctx, ws, root, r, f, single, 24)
				}
			} else if suspicious != "" {
				cc.Mismatch = append(cc.Mismatch, suspicious)
			}
		}
	}
	cc.Subsets = results
	if cc.Diff != nil {
		keep := map[string]bool{}
		for _, f := range cc.Diff.Block {
			keep[f] = true
		}
		m := ws // every field (configuration, linter options, repeat count) but the files
		m.Files = nil
		for _, f := range ws.Files {
			if keep[f.Name] {
				m.Files = append(m.Files, f)
			}
		}
		cc.MinWS = &m
	}
	return cc
}

// shrinkDiffChunks: like shrinkDiff for big runs: drop chunks of files (halves, quarters, ... single files) from
// the run while file f is still judged differently than alone, with a budget of Lint calls
func (rn *runner) shrinkDiffChunks(ctx context.Context, ws probe.Workspace, root string, r SubsetRun, f string, single SubsetRun, budget int) *Diff {
	cur := r
	for chunk := len(cur.Files) / 2; chunk >= 1 && budget > 0; chunk /= 2 {
		for i := 0; i+chunk <= len(cur.Files) && budget > 0; {
			var fs []string
			hasF := false
			for j, g := range cur.Files {
				if j >= i && j < i+chunk {
					if g == f {
						hasF = true
					}
					continue
				}
				fs = append(fs, g)
			}
			if hasF || len(fs) < 2 {
				i += chunk
				continue
			}
			budget--
			t, _ := rn.lint(ctx, ws, root, fs)
			if t.Err == "" && !sameKeys(t.PerFile[f], single.PerFile[f]) {
				cur = t
			} else {
				i += chunk
			}
		}
	}
	return &Diff{File: f, Block: cur.Files, InBlock: cur.PerFile[f], Alone: single.PerFile[f],
		Rules: rulesDiffering(cur.PerFile[f], single.PerFile[f]), From: r.Files}
}

// sizes across and around powers of two and typical pool sizes
var sizedQuick = []int{1, 2, 7, 15, 16, 17, 31, 32, 33, 47, 63, 64, 65, 100, 129, 257}
var sizedThorough = []int{1, 2, 3, 4, 5, 7, 8, 9, 15, 16, 17, 24, 31, 32, 33, 47, 48, 63, 64, 65, 96, 97, 100, 127, 128, 129, 255, 256, 257, 511, 512, 513, 1000, 1025}

// ---------------------------------------------------------------- the bundled rules of this tree

type RuleInfo struct {
	Rule            string `json:"rule"` // category/title
	Report          bool   `json:"report"`
	Aggregate       bool   `json:"aggregate"`
	AggregateReport bool   `json:"aggregate_report"`
}

// bundleRules: which of report / aggregate / aggregate_report every rule package of the embedded
// bundle (the one the linter of this tree evaluates) defines
func bundleRules() []RuleInfo {
	by := map[string]*RuleInfo{}
	for _, mf := range rbundle.LoadedBundle.Modules {
		if mf.Parsed == nil {
			continue
		}
		p := mf.Parsed.Package.Path
		// data.regal.rules.<category>.<title>
		if len(p) != 5 || p[1].Value.String() != `"regal"` || p[2].Value.String() != `"rules"` {
			continue
		}
		cat := strings.Trim(p[3].Value.String(), `"`)
		title := strings.Trim(p[4].Value.String(), `"`)
		if strings.HasSuffix(title, "_test") {
			continue
		}
		k := cat + "/" + title
		ri := by[k]
		if ri == nil {
			ri = &RuleInfo{Rule: k}
			by[k] = ri
		}
		for _, r := range mf.Parsed.Rules {
			ref := r.Head.Ref()
			if len(ref) == 0 {
				continue
			}
			switch strings.Trim(ref[0].Value.String(), `"`) {
			case "report":
				ri.Report = true
			case "aggregate":
				ri.Aggregate = true
			case "aggregate_report":
				ri.AggregateReport = true
			}
		}
	}
	out := []RuleInfo{}
	for _, ri := range by {
		out = append(out, *ri)
	}
	sort.Slice(out, func(i, j int) bool { return out[i].Rule < out[j].Rule })
	return out
}

// ---------------------------------------------------------------- the module pool

// PoolFile: a module offered for the composition workspaces (hand-written trigger or docs example)
type PoolFile struct {
	Name    string `json:"name"`
	Content string `json:"content"`
	Source  string `json:"source"` // "trigger" | "docs"
}

type PoolInfo struct {
	Kind       string     `json:"kind"`
	Offered    int        `json:"offered"`
	Unparsable []string   `json:"unparsable"`
	Rules      []RuleInfo `json:"rules"`
	OptionSets [][]string `json:"option_sets"`
}

func chunk(fs []probe.File, k int) [][]probe.File {
	var out [][]probe.File
	for i := 0; i < len(fs); i += k {
		j := i + k
		if j > len(fs) {
			j = len(fs)
		}
		c := append([]probe.File{}, fs[i:j]...)
		for p := 0; len(c) < k && p < i && p < len(fs); p++ { // pad the last chunk from the front
			c = append(c, fs[p])
		}
		out = append(out, c)
	}
	return out
}

type job struct {
	id         int
	ws         probe.Workspace
	source     string
	rng        *hutil.Rng
	probeOnly  bool
	sized      int    // > 0: a size-boundary workspace of that many files (ws is generated by runSized)
	conf       string // its configuration
	opts       []string
	repeats    int
	noBlocks   bool
	sequential bool // the Lint calls of the job one after the other
}

// optionSets: the optional features of the linter that change how the evaluation is set up (not what is linted):
// every single one, all of them together, and further combinations (quick: a few by the seed; thorough: every pair
// and more by the seed).  The first set is the all-on combination.
func optionSets(rng *hutil.Rng, tier string) [][]string {
	all := append([]string{}, probe.AllOpts...)
	sets := [][]string{all}
	for _, o := range all {
		sets = append(sets, []string{o})
	}
	nrand := 3
	if tier != "quick" {
		nrand = 24
		for i := range all {
			for j := i + 1; j < len(all); j++ {
				sets = append(sets, []string{all[i], all[j]})
			}
		}
	}
	seen := map[string]bool{}
	for _, s := range sets {
		seen[strings.Join(s, ",")] = true
	}
	for tries := 0; nrand > 0 && tries < 200; tries++ {
		var s []string
		for _, o := range all {
			if rng.Below(2) == 0 {
				s = append(s, o)
			}
		}
		k := strings.Join(s, ",")
		if len(s) < 2 || seen[k] {
			continue
		}
		seen[k] = true
		sets = append(sets, s)
		nrand--
	}
	return sets
}

// poolJobs: the composition workspaces built from the pool
func poolJobs(rng *hutil.Rng, pool []PoolFile, tier string, info *PoolInfo) []job {
	info.Offered = len(pool)
	info.Unparsable = []string{}
	var trig, docs []probe.File
	for _, pf := range pool {
		p := filepath.Join("pool", pf.Name)
		if err := os.MkdirAll(filepath.Dir(p), 0o755); err != nil {
			panic(err)
		}
		if err := os.WriteFile(p, []byte(pf.Content), 0o644); err != nil {
			panic(err)
		}
		// a file that does not parse fails the whole run (c02_unparseable_file_fails_run): not for this part
		if _, err := rules.InputFromPaths([]string{p}, "", nil); err != nil {
			info.Unparsable = append(info.Unparsable, pf.Name)
			continue
		}
		f := probe.File{Name: pf.Name, Content: pf.Content}
		if pf.Source == "trigger" {
			trig = append(trig, f)
		} else {
			docs = append(docs, f)
		}
	}
	var jobs []job
	id := 1000
	add := func(files []probe.File, conf string, custom bool, source string, probeOnly bool) {
		if len(files) == 0 {
			return
		}
		jobs = append(jobs, job{id: id, ws: probe.Workspace{ID: id, Files: files, Config: conf, Custom: custom}, source: source,
			rng: hutil.NewRng(rng.Next()), probeOnly: probeOnly})
		id++
	}
	// the hand-written triggers: at most 4 files per workspace, so every subset and partition is linted;
	// quick: alternating configurations, thorough: both for every chunk
	for i, c := range chunk(trig, 4) {
		if tier != "quick" || i%2 == 0 {
			add(c, "enable-all", false, "pool-triggers", false)
		}
		if tier != "quick" || i%2 == 1 {
			add(c, "default", true, "pool-triggers", false)
		}
	}
	// the docs examples, every rule enabled; one trigger module rides along in each workspace.
	// One Lint costs a query preparation (~0.3 s of CPU), and every module needs its own run alone, so the
	// quick tier lints a sample of the modules (chosen by the seed) and evaluates only the lint query
	// with/without the collect operation (one prepared query for all) on the others.
	hutil.Shuffle(rng, docs)
	for i, c := range chunk(docs, 8) {
		if len(trig) > 0 {
			c = append(c, trig[i%len(trig)])
		}
		add(c, "enable-all", false, "pool-docs", tier == "quick" && i >= 4)
	}
	if tier != "quick" {
		hutil.Shuffle(rng, docs)
		for i, c := range chunk(docs, 3) {
			if len(trig) > 0 {
				c = append(c, trig[i%len(trig)])
			}
			add(c, "enable-all", i%3 == 0, "pool-docs", false)
		}
	}
	return jobs
}

func main() {
	if len(os.Args) < 5 {
		fmt.Fprintln(os.Stderr, "usage: c02 <out.jsonl> <tier> <workdir> <extra-dir-names> [fixed-trees.json [only]]")
		os.Exit(2)
	}
	outPath, tier, wd := os.Args[1], os.Args[2], os.Args[3]
	var extra []string
	for _, s := range strings.Split(os.Args[4], ",") {
		if s != "" {
			extra = append(extra, s)
		}
	}
	if err := os.MkdirAll(wd, 0o755); err != nil {
		panic(err)
	}
	wabs, err := filepath.Abs(wd)
	if err != nil {
		panic(err)
	}
	if err := os.Chdir(wabs); err != nil {
		panic(err)
	}
	out := hutil.NewOut(outPath)
	defer out.Close()
	ctx := context.Background()
	rng := hutil.NewRng(hutil.SeedFromEnv())
	log.SetOutput(io.Discard) // the linter's debug mode logs the merged configuration

	type fixedIn struct {
		Trees   []TreeCase        `json:"trees"`
		Compose []probe.Workspace `json:"compose"`
		Pool    []PoolFile        `json:"pool"`
	}
	rn := &runner{sem: make(chan struct{}, 10), oracles: &oracleCache{m: map[string]*probe.Oracle{}}, tier: tier}
	only := false
	var fx fixedIn
	if len(os.Args) > 5 && os.Args[5] != "" {
		b, err := os.ReadFile(os.Args[5])
		if err != nil {
			panic(err)
		}
		if err := json.Unmarshal(b, &fx); err != nil {
			panic(err)
		}
		only = len(os.Args) > 6 && os.Args[6] == "only"
	}
	for i := range fx.Trees {
		out.Emit(runTree(ctx, rng, 5000+i, wabs, extra, !fx.Trees[i].NoLint, &fx.Trees[i]))
	}
	var jobs []job
	for i, ws := range fx.Compose {
		jobs = append(jobs, job{id: 5000 + i, ws: ws, source: "fixed", rng: hutil.NewRng(rng.Next())})
	}
	runJobs := func(jobs []job) {
		res := make([]ComposeCase, len(jobs))
		var wg sync.WaitGroup
		for i, j := range jobs {
			wg.Add(1)
			go func(i int, j job) {
				defer wg.Done()
				t0 := time.Now()
				defer func() { res[i].Seconds = time.Since(t0).Seconds() }()
				if j.sized > 0 {
					res[i] = rn.runSized(ctx, j.rng, j.id, j.sized, j.conf, j.opts, j.repeats, !j.noBlocks, j.sequential)
					return
				}
				res[i] = rn.runCompose(ctx, j.rng, j.id, j.ws, j.source, j.probeOnly)
			}(i, j)
		}
		wg.Wait()
		for _, c := range res {
			out.Emit(c)
		}
	}
	if only {
		runJobs(jobs)
		return
	}

	ntrees, nlint := 400, 20
	csizes := []int{2, 3, 4, 4, 5, 6}
	if tier != "quick" {
		ntrees, nlint = 2500, 120
		csizes = []int{1, 2, 2, 3, 3, 3, 4, 4, 4, 4, 5, 5, 6, 6, 7, 8}
	}
	// trees: the linted ones run in parallel
	cases := make([]TreeCase, ntrees)
	var wg sync.WaitGroup
	sem := rn.sem
	// generation consumes the generator sequentially so that a run is reproducible from its seed
	for i := 0; i < ntrees; i++ {
		sub := hutil.NewRng(rng.Next())
		lint := i < nlint
		if lint {
			wg.Add(1)
			go func(i int) {
				defer wg.Done()
				sem <- struct{}{}
				cases[i] = runTree(ctx, sub, i, wabs, extra, true, nil)
				<-sem
			}(i)
		} else {
			cases[i] = runTree(ctx, sub, i, wabs, extra, false, nil)
		}
	}
	wg.Wait()
	for _, c := range cases {
		out.Emit(c)
	}
	gen := hutil.NewRng(hutil.SeedFromEnv() ^ 0xc02)
	for i, n := range csizes {
		ws := probe.GenWorkspace(gen, i, n)
		jobs = append(jobs, job{id: i, ws: ws, source: "generated", rng: hutil.NewRng(gen.Next())})
	}
	// size boundaries: every rule enabled for the small ones, the default configuration for the big ones
	sizes := sizedQuick
	if tier != "quick" {
		sizes = sizedThorough
	}
	sgen := hutil.NewRng(hutil.SeedFromEnv() ^ 0x512ed)
	for i, n := range sizes {
		conf := "default"
		if n <= 33 {
			conf = "enable-all"
		}
		jobs = append(jobs, job{id: 3000 + i, source: "sized", rng: hutil.NewRng(sgen.Next()), sized: n, conf: conf})
	}
	// round 3: the same two kinds of workspaces under the optional features of the linter (metrics, instrumentation,
	// profiling, base cache, print hook, debug mode, exported aggregates, collect query): whatever such a feature
	// shares between the per-file evaluations of one run must not move a verdict from one file to another
	ogen := hutil.NewRng(hutil.SeedFromEnv() ^ 0x0b75)
	osets := optionSets(ogen, tier)
	oid := 4000
	for i, set := range osets {
		ns, reps := []int{33}, 2
		if i == 0 { // all on: see the exclusive phase below
			ns, reps = []int{33}, 2
		} else if len(set) > 1 && tier != "quick" {
			ns = []int{[]int{33, 47, 65}[ogen.Below(3)]}
		}
		if tier != "quick" {
			reps += 2
			if i == 0 {
				ns = append(ns, 129, 257)
			}
		}
		for _, n := range ns {
			jobs = append(jobs, job{id: oid, source: "sized-opts", rng: hutil.NewRng(ogen.Next()), sized: n, conf: "default",
				opts: set, repeats: reps, noBlocks: tier == "quick" || i != 0})
			oid++
		}
	}
	// exclusive phase: the all-on combination on N = 65 (thorough also 129) files, the run over all files repeated 8
	// (20) times ONE AFTER THE OTHER while nothing else runs in this process: all CPUs work on the per-file goroutines of
	// one run, which is when they meet at whatever they share (a Lint call beside nine others hardly ever shows that)
	exN, exReps := []int{65}, 8
	if tier != "quick" {
		exN, exReps = []int{65, 129}, 20
	}
	var exclusive []job
	for _, n := range exN {
		exclusive = append(exclusive, job{id: oid, source: "sized-opts", rng: hutil.NewRng(ogen.Next()), sized: n, conf: "default",
			opts: osets[0], repeats: exReps, noBlocks: true, sequential: true})
		oid++
	}
	osizes := csizes
	if tier == "quick" {
		osizes = []int{2, 3, 4, 5}
	}
	for i, n := range osizes {
		ws := probe.GenWorkspace(gen, 100+i, n)
		ws.Opts = osets[i%len(osets)]
		jobs = append(jobs, job{id: 100 + i, ws: ws, source: "generated-opts", rng: hutil.NewRng(gen.Next())})
	}
	info := PoolInfo{Kind: "pool", Rules: bundleRules(), OptionSets: osets}
	jobs = append(jobs, poolJobs(hutil.NewRng(hutil.SeedFromEnv()^0x9001), fx.Pool, tier, &info)...)
	out.Emit(info)
	if os.Getenv("VERIF_C02_ONLY") == "" || os.Getenv("VERIF_C02_ONLY") == "sized-opts" {
		for _, j := range exclusive {
			runJobs([]job{j})
		}
	}
	// experiments only: VERIF_C02_ONLY=<source> runs the composition jobs of one source (the check never sets it)
	if onlySrc := os.Getenv("VERIF_C02_ONLY"); onlySrc != "" {
		var keep []job
		for _, j := range jobs {
			if j.source == onlySrc {
				keep = append(keep, j)
			}
		}
		jobs = keep
	}
	runJobs(jobs)
}
