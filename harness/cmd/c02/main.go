// C02 harness: builds directory trees in a temp dir and records what the real
// config.FilterIgnoredPaths and Linter.Lint do with them (discovered list, files_scanned,
// summary), tabulates the glob oracle with the real matcher, evaluates the specification of
// discovery independently in Go (failing-input search), and compares batch runs with the runs
// over every block of every partition of small file sets.
//
// usage: c02 <out.jsonl> <tier> <workdir> <extra-dir-names,comma> [fixed-trees.json [only]]
package main

import (
	"context"
	"encoding/json"
	"fmt"
	"os"
	"path"
	"path/filepath"
	"sort"
	"strings"
	"sync"

	"github.com/styrainc/regal/pkg/config"
	"github.com/styrainc/regal/pkg/linter"
	"github.com/styrainc/regal/pkg/report"

	"verifharness/cmd/c01/probe"
	"verifharness/hutil"
)

// ---------------------------------------------------------------- trees

type Node struct {
	Name     string  `json:"name"`
	Dir      bool    `json:"dir"`
	Children []*Node `json:"children,omitempty"`
	Content  string  `json:"content,omitempty"`
}

var specSkip = map[string]bool{".git": true, ".idea": true, "node_modules": true}

const specExt = ".rego"

var dirNames = []string{"a", "b", "c", "ab", ".git", "node_modules", ".idea", "x.rego", "d.e", "git", ".github"}
var fileNames = []string{"p.rego", "q.rego", "r.rego", "v.rego", "n.txt", "s.rego.bak", ".rego", "t.REGO", "rego", "u.json", ".git", "w.rego", "p.reg", "prego"}

func sanitize(s string) string {
	var b strings.Builder
	for _, c := range s {
		if (c >= 'a' && c <= 'z') || (c >= '0' && c <= '9') {
			b.WriteRune(c)
		} else {
			b.WriteRune('_')
		}
	}
	return b.String()
}

func genDir(rng *hutil.Rng, name, rel string, depth, maxDepth int, extra []string, uniq *int) *Node {
	n := &Node{Name: name, Dir: true}
	used := map[string]bool{}
	cnt := 1 + rng.Below(4)
	for i := 0; i < cnt; i++ {
		if depth < maxDepth && rng.Below(5) < 2 {
			pool := dirNames
			if len(extra) > 0 && rng.Below(3) == 0 {
				pool = extra
			}
			nm := hutil.Choice(rng, pool)
			if used[nm] {
				continue
			}
			used[nm] = true
			n.Children = append(n.Children, genDir(rng, nm, rel+"/"+nm, depth+1, maxDepth, extra, uniq))
		} else {
			nm := hutil.Choice(rng, fileNames)
			if used[nm] {
				continue
			}
			used[nm] = true
			*uniq++
			var content string
			if strings.HasSuffix(nm, ".rego") {
				content = fmt.Sprintf("package t.%s_%d\n\n", sanitize(rel+"_"+nm), *uniq)
				switch rng.Below(4) {
				case 0:
					content += "camelCase := 1\n"
				case 1:
					content += "import data.nowhere.x\n\nallow if {\n\tinput.x == 1\n}\n"
				default:
					content += "allow if {\n\tinput.x == 1\n}\n"
				}
			} else {
				content = "this is { not rego\n"
			}
			n.Children = append(n.Children, &Node{Name: nm, Content: content})
		}
	}
	sort.Slice(n.Children, func(i, j int) bool { return n.Children[i].Name < n.Children[j].Name })
	return n
}

func (n *Node) write(dir string) error {
	p := filepath.Join(dir, n.Name)
	if !n.Dir {
		return os.WriteFile(p, []byte(n.Content), 0o644)
	}
	if err := os.MkdirAll(p, 0o755); err != nil {
		return err
	}
	for _, c := range n.Children {
		if err := c.write(p); err != nil {
			return err
		}
	}
	return nil
}

type entry struct {
	rel  string
	node *Node
}

func (n *Node) all(rel string, out *[]entry) {
	*out = append(*out, entry{rel, n})
	for _, c := range n.Children {
		c.all(rel+"/"+c.Name, out)
	}
}

func (n *Node) find(comps []string) *Node {
	if len(comps) == 0 {
		return n
	}
	for _, c := range n.Children {
		if c.Name == comps[0] {
			return c.find(comps[1:])
		}
	}
	return nil
}

// ---------------------------------------------------------------- the specification, in Go

func osBase(p string) string {
	for len(p) > 1 && p[len(p)-1] == '/' {
		p = p[:len(p)-1]
	}
	if i := strings.LastIndex(p, "/"); i >= 0 && len(p) > 1 {
		p = p[i+1:]
	}
	return p
}

func specWalk(pth, name string, n *Node, out *[]string) {
	if !n.Dir {
		if strings.HasSuffix(pth, specExt) {
			*out = append(*out, pth)
		}
		return
	}
	if specSkip[name] {
		return
	}
	for _, c := range n.Children {
		specWalk(filepath.Join(pth, c.Name), c.Name, c, out)
	}
}

// specDiscover: expected result of FilterIgnoredPaths before the ignore patterns; ok=false when
// an argument does not exist
func specDiscover(top *Node, wabs string, args []string) ([]string, bool) {
	var out []string
	ok := true
	for _, a := range args {
		c := path.Clean(a)
		if path.IsAbs(c) {
			c = strings.TrimPrefix(c, wabs+"/")
		}
		comps := strings.Split(c, "/")
		if comps[0] != top.Name {
			ok = false
			continue
		}
		n := top.find(comps[1:])
		if n == nil || a == "" || (!n.Dir && strings.HasSuffix(a, "/")) {
			ok = false
			continue
		}
		specWalk(a, osBase(a), n, &out)
	}
	return out, ok
}

// ---------------------------------------------------------------- observations

type TreeCase struct {
	Kind     string                     `json:"kind"`
	ID       int                        `json:"id"`
	Tree     *Node                      `json:"tree"`
	Args     []string                   `json:"args"` // canonical: the workdir spelled /R
	Ignore   []string                   `json:"ignore"`
	Excl     map[string]map[string]bool `json:"excl"`
	Bad      []string                   `json:"bad"`
	Filtered []string                   `json:"filtered"`
	FiltErr  bool                       `json:"filt_err"`
	Linted   bool                       `json:"linted"`
	Scanned  int                        `json:"scanned"`
	LintErr  string                     `json:"lint_err"`
	Spec     []string                   `json:"spec"` // what the Go rendering of the specification expects
	SpecOK   bool                       `json:"spec_ok"`
	SpecBad  string                     `json:"spec_bad"` // non-empty: the implementation contradicts the specification
	Summary  *SumCase                   `json:"summary,omitempty"`
	NoLint   bool                       `json:"nolint,omitempty"` // fixed cases only: skip the lint run
}

type SumCase struct {
	Kind      string         `json:"kind"`
	ViolFiles []string       `json:"viol_files"`
	Notices   []probe.Notice `json:"notices"`
	Scanned   int            `json:"scanned"`
	Failed    int            `json:"failed"`
	Skipped   int            `json:"skipped"`
	Num       int            `json:"num"`
	Bad       string         `json:"bad"`
}

func sumCase(r report.Report, rel probe.Rel) *SumCase {
	s := &SumCase{Kind: "report", ViolFiles: []string{}, Notices: []probe.Notice{}, Scanned: r.Summary.FilesScanned,
		Failed: r.Summary.FilesFailed, Skipped: r.Summary.RulesSkipped, Num: r.Summary.NumViolations}
	files := map[string]bool{}
	for _, v := range r.Violations {
		s.ViolFiles = append(s.ViolFiles, rel(v.Location.File))
		files[v.Location.File] = true
	}
	skipped := 0
	seen := map[string]bool{}
	dup := false
	for _, n := range r.Notices {
		cn := probe.CanonNotice(n)
		s.Notices = append(s.Notices, cn)
		if n.Severity != "none" {
			skipped++
		}
		if seen[cn.Key+"|"+cn.Sev] {
			dup = true
		}
		seen[cn.Key+"|"+cn.Sev] = true
	}
	switch {
	case s.Num != len(r.Violations):
		s.Bad = fmt.Sprintf("num_violations=%d but %d violations listed", s.Num, len(r.Violations))
	case s.Failed != len(files):
		s.Bad = fmt.Sprintf("files_failed=%d but violations name %d distinct files", s.Failed, len(files))
	case s.Skipped != skipped:
		s.Bad = fmt.Sprintf("rules_skipped=%d but %d notices have a severity other than none", s.Skipped, skipped)
	case dup:
		s.Bad = "the same notice is listed twice"
	}
	return s
}

var ignorePool = []string{"", "a/", "*.txt", "q.rego", "**/b/**", "%T/a/*.rego", "/%T/c/", "ab", "p.*", "%T/**/v.rego", "c"}

func spell(rng *hutil.Rng, rel string, isDir bool, wabs string) string {
	switch rng.Below(8) {
	case 0:
		return "./" + rel
	case 1:
		if isDir {
			return rel + "/"
		}
	case 2:
		return filepath.Join(wabs, rel)
	case 3:
		if isDir {
			return rel + "/."
		}
	case 4:
		if i := strings.LastIndex(rel, "/"); i > 0 {
			return rel[:i] + "/../" + path.Base(rel[:i]) + rel[i:]
		}
	case 5:
		return strings.Replace(rel, "/", "//", 1)
	}
	return rel
}

func excludedBy(pattern, file string) bool {
	res, err := config.FilterIgnoredPaths([]string{file}, []string{pattern}, false, "")
	return err == nil && len(res) == 0
}

func runTree(ctx context.Context, rng *hutil.Rng, id int, wabs string, extra []string, lint bool, fixed *TreeCase) TreeCase {
	tc := TreeCase{Kind: "tree", ID: id, Excl: map[string]map[string]bool{}, Bad: []string{}, Ignore: []string{}}
	canon := func(s string) string {
		if strings.HasPrefix(s, wabs) {
			return "/R" + s[len(wabs):]
		}
		return s
	}
	real := func(s string) string {
		if strings.HasPrefix(s, "/R") {
			return wabs + s[2:]
		}
		return s
	}
	var top *Node
	var args []string
	if fixed != nil {
		top = fixed.Tree
		tc.Ignore = fixed.Ignore
		for _, a := range fixed.Args {
			args = append(args, real(a))
		}
	} else {
		uniq := 0
		name := fmt.Sprintf("t%d", id)
		top = genDir(rng, name, name, 0, 3, extra, &uniq)
		var ents []entry
		top.all(top.Name, &ents)
		// one tree in ten has a .rego file that does not parse
		if rng.Below(10) == 0 {
			for _, e := range ents {
				if !e.node.Dir && strings.HasSuffix(e.node.Name, ".rego") {
					e.node.Content = "package broken\n\nallow if {\n"
					break
				}
			}
		}
		na := 1 + rng.Below(3)
		for i := 0; i < na; i++ {
			e := hutil.Choice(rng, ents)
			if i == 0 && rng.Below(2) == 0 {
				e = ents[0]
			}
			args = append(args, spell(rng, e.rel, e.node.Dir, wabs))
		}
		if rng.Below(20) == 0 {
			args = append(args, top.Name+"/nope")
		}
		if rng.Below(4) == 0 {
			args = append(args, args[0]) // duplicate
		}
		ni := rng.Below(3)
		for i := 0; i < ni; i++ {
			tc.Ignore = append(tc.Ignore, strings.ReplaceAll(hutil.Choice(rng, ignorePool), "%T", top.Name))
		}
	}
	tc.Tree = top
	_ = os.RemoveAll(filepath.Join(wabs, top.Name))
	if err := top.write(wabs); err != nil {
		panic(err)
	}
	for _, a := range args {
		tc.Args = append(tc.Args, canon(a))
	}
	// what is walked before the ignore patterns apply (also the domain of the glob table)
	walked, werr := config.FilterIgnoredPaths(args, nil, true, "")
	filtered, ferr := config.FilterIgnoredPaths(args, tc.Ignore, true, "")
	tc.FiltErr = ferr != nil
	tc.Filtered = []string{}
	for _, f := range filtered {
		tc.Filtered = append(tc.Filtered, canon(f))
	}
	spec, specOK := specDiscover(top, wabs, args)
	tc.SpecOK = specOK
	tc.Spec = []string{}
	domain := map[string]bool{}
	for _, f := range walked {
		domain[f] = true
	}
	for _, f := range spec {
		domain[f] = true
	}
	for _, p := range tc.Ignore {
		if p == "" {
			continue
		}
		row := map[string]bool{}
		for f := range domain {
			row[canon(f)] = excludedBy(p, f)
		}
		tc.Excl[p] = row
	}
	var specFiltered []string
	for _, f := range spec {
		ex := false
		for _, p := range tc.Ignore {
			if p != "" && tc.Excl[p][canon(f)] {
				ex = true
			}
		}
		if !ex {
			specFiltered = append(specFiltered, f)
			tc.Spec = append(tc.Spec, canon(f))
		}
	}
	// the specification on the implementation's own output
	switch {
	case !specOK && ferr == nil:
		tc.SpecBad = "an argument does not exist but FilterIgnoredPaths returned no error"
	case specOK && ferr != nil:
		tc.SpecBad = "every argument exists but FilterIgnoredPaths failed: " + ferr.Error()
	case specOK && werr == nil:
		got := map[string]int{}
		for _, f := range filtered {
			got[f]++
		}
		want := map[string]int{}
		for _, f := range specFiltered {
			want[f]++
		}
		for f, c := range want {
			if got[f] < c {
				tc.SpecBad = "silently skipped: " + canon(f)
			}
		}
		for f, c := range got {
			if want[f] < c {
				tc.SpecBad = "unexpectedly included: " + canon(f)
			}
		}
	}
	// which discovered files do not parse
	bad := map[string]bool{}
	var ents []entry
	top.all(top.Name, &ents)
	for _, e := range ents {
		if !e.node.Dir && strings.HasPrefix(e.node.Content, "package broken") {
			bad[e.rel] = true
			bad[filepath.Join(wabs, e.rel)] = true
		}
	}
	for _, f := range filtered {
		if bad[filepath.Clean(f)] {
			tc.Bad = append(tc.Bad, canon(filepath.Clean(f)))
		}
	}
	if lint && ferr == nil {
		tc.Linted = true
		l := linter.NewLinter().WithInputPaths(args)
		if len(tc.Ignore) > 0 {
			l = l.WithIgnore(tc.Ignore)
		}
		rep, err := l.Lint(ctx)
		if err != nil {
			tc.LintErr = err.Error()
		} else {
			tc.Scanned = rep.Summary.FilesScanned
			tc.Summary = sumCase(rep, canon)
			distinct := map[string]bool{}
			for _, f := range filtered {
				distinct[filepath.Clean(f)] = true
			}
			if rep.Summary.FilesScanned != len(distinct) && tc.Summary.Bad == "" {
				tc.Summary.Bad = fmt.Sprintf("files_scanned=%d but FilterIgnoredPaths found %d distinct files", rep.Summary.FilesScanned, len(distinct))
			}
		}
	}
	return tc
}

// ---------------------------------------------------------------- composition

type SubsetRun struct {
	Files   []string            `json:"files"`
	PerFile map[string][]string `json:"per_file"` // non-aggregate violation keys per file
	Other   []string            `json:"other"`    // non-aggregate violations located in no file of the run
	NAgg    int                 `json:"n_agg"`
	Err     string              `json:"err,omitempty"`
}

type ComposeCase struct {
	Kind       string          `json:"kind"`
	ID         int             `json:"id"`
	WS         probe.Workspace `json:"ws"`
	Subsets    []SubsetRun     `json:"subsets"`
	Partitions int             `json:"partitions"`
	Mismatch   []string        `json:"mismatch"`
	Summaries  []*SumCase      `json:"summaries"`
}

func lintSubset(ctx context.Context, ws probe.Workspace, root string, files []string) (SubsetRun, *SumCase) {
	sr := SubsetRun{Files: files, PerFile: map[string][]string{}, Other: []string{}}
	l, err := ws.NewLinter()
	if err != nil {
		sr.Err = err.Error()
		return sr, nil
	}
	var paths []string
	for _, f := range files {
		paths = append(paths, filepath.Join(root, f))
	}
	rel := func(s string) string { return strings.TrimPrefix(s, root+"/") }
	rep, err := l.WithInputPaths(paths).Lint(ctx)
	if err != nil {
		sr.Err = err.Error()
		return sr, nil
	}
	in := map[string]bool{}
	for _, f := range files {
		in[f] = true
		sr.PerFile[f] = []string{}
	}
	for _, v := range rep.Violations {
		if v.IsAggregate {
			sr.NAgg++
			continue
		}
		cv := probe.CanonViol(v, rel)
		if in[cv.File] {
			sr.PerFile[cv.File] = append(sr.PerFile[cv.File], cv.Key)
		} else {
			sr.Other = append(sr.Other, cv.File+"|"+cv.Key)
		}
	}
	for f := range sr.PerFile {
		sort.Strings(sr.PerFile[f])
	}
	return sr, sumCase(rep, rel)
}

func subsetKey(fs []string) string { return strings.Join(fs, "\x00") }

func runCompose(ctx context.Context, rng *hutil.Rng, id int, ws probe.Workspace, tier string) ComposeCase {
	cc := ComposeCase{Kind: "compose", ID: id, WS: ws, Mismatch: []string{}}
	root := fmt.Sprintf("c%d", id)
	_ = os.RemoveAll(root)
	if err := ws.Write(root); err != nil {
		panic(err)
	}
	var names []string
	for _, f := range ws.Files {
		names = append(names, f.Name)
	}
	sort.Strings(names)
	n := len(names)
	want := map[string][]string{}
	add := func(fs []string) {
		k := subsetKey(fs)
		if _, ok := want[k]; !ok {
			want[k] = fs
		}
	}
	var partitions [][][]string
	if n <= 4 {
		// every partition of the set: all blocks are all non-empty subsets
		var rec func(i int, blocks [][]string)
		rec = func(i int, blocks [][]string) {
			if i == n {
				cp := make([][]string, len(blocks))
				for j := range blocks {
					cp[j] = append([]string{}, blocks[j]...)
				}
				partitions = append(partitions, cp)
				return
			}
			for j := range blocks {
				blocks[j] = append(blocks[j], names[i])
				rec(i+1, blocks)
				blocks[j] = blocks[j][:len(blocks[j])-1]
			}
			rec(i+1, append(blocks, []string{names[i]}))
		}
		rec(0, nil)
	} else {
		np := 2
		if tier != "quick" {
			np = 6
		}
		partitions = append(partitions, [][]string{append([]string{}, names...)})
		for p := 0; p < np; p++ {
			k := 2 + rng.Below(3)
			blocks := make([][]string, k)
			for _, f := range names {
				b := rng.Below(k)
				blocks[b] = append(blocks[b], f)
			}
			var nb [][]string
			for _, b := range blocks {
				if len(b) > 0 {
					nb = append(nb, b)
				}
			}
			partitions = append(partitions, nb)
		}
	}
	for _, f := range names {
		add([]string{f})
	}
	for _, p := range partitions {
		for _, b := range p {
			add(b)
		}
	}
	cc.Partitions = len(partitions)
	keys := make([]string, 0, len(want))
	for k := range want {
		keys = append(keys, k)
	}
	sort.Strings(keys)
	results := make([]SubsetRun, len(keys))
	sums := make([]*SumCase, len(keys))
	var wg sync.WaitGroup
	sem := make(chan struct{}, 6)
	for i, k := range keys {
		wg.Add(1)
		go func(i int, fs []string) {
			defer wg.Done()
			sem <- struct{}{}
			results[i], sums[i] = lintSubset(ctx, ws, root, fs)
			<-sem
		}(i, want[k])
	}
	wg.Wait()
	byKey := map[string]SubsetRun{}
	for i, k := range keys {
		byKey[k] = results[i]
		if sums[i] != nil {
			cc.Summaries = append(cc.Summaries, sums[i])
		}
	}
	cc.Subsets = results
	// every block of every partition: per file, the same violations as the file alone
	for _, r := range results {
		if r.Err != "" {
			cc.Mismatch = append(cc.Mismatch, fmt.Sprintf("lint of %v failed: %s", r.Files, r.Err))
			continue
		}
		if len(r.Other) > 0 {
			cc.Mismatch = append(cc.Mismatch, fmt.Sprintf("run over %v reports per-file violations located elsewhere: %v", r.Files, r.Other))
		}
		for _, f := range r.Files {
			single := byKey[subsetKey([]string{f})]
			a, _ := json.Marshal(r.PerFile[f])
			b, _ := json.Marshal(single.PerFile[f])
			if string(a) != string(b) {
				cc.Mismatch = append(cc.Mismatch, fmt.Sprintf("file %s: in the run over %v: %s; alone: %s", f, r.Files, a, b))
			}
		}
	}
	return cc
}

func main() {
	if len(os.Args) < 5 {
		fmt.Fprintln(os.Stderr, "usage: c02 <out.jsonl> <tier> <workdir> <extra-dir-names> [fixed-trees.json [only]]")
		os.Exit(2)
	}
	outPath, tier, wd := os.Args[1], os.Args[2], os.Args[3]
	var extra []string
	for _, s := range strings.Split(os.Args[4], ",") {
		if s != "" {
			extra = append(extra, s)
		}
	}
	if err := os.MkdirAll(wd, 0o755); err != nil {
		panic(err)
	}
	wabs, err := filepath.Abs(wd)
	if err != nil {
		panic(err)
	}
	if err := os.Chdir(wabs); err != nil {
		panic(err)
	}
	out := hutil.NewOut(outPath)
	defer out.Close()
	ctx := context.Background()
	rng := hutil.NewRng(hutil.SeedFromEnv())

	type fixedIn struct {
		Trees   []TreeCase        `json:"trees"`
		Compose []probe.Workspace `json:"compose"`
	}
	only := false
	var fx fixedIn
	if len(os.Args) > 5 && os.Args[5] != "" {
		b, err := os.ReadFile(os.Args[5])
		if err != nil {
			panic(err)
		}
		if err := json.Unmarshal(b, &fx); err != nil {
			panic(err)
		}
		only = len(os.Args) > 6 && os.Args[6] == "only"
	}
	for i := range fx.Trees {
		out.Emit(runTree(ctx, rng, 5000+i, wabs, extra, !fx.Trees[i].NoLint, &fx.Trees[i]))
	}
	for i, ws := range fx.Compose {
		out.Emit(runCompose(ctx, rng, 5000+i, ws, tier))
	}
	if only {
		return
	}

	ntrees, nlint := 400, 20
	csizes := []int{2, 3, 4, 4, 5, 6}
	if tier != "quick" {
		ntrees, nlint = 2500, 120
		csizes = []int{1, 2, 2, 3, 3, 3, 4, 4, 4, 4, 5, 5, 6, 6, 7, 8}
	}
	// trees: the linted ones run in parallel
	cases := make([]TreeCase, ntrees)
	var wg sync.WaitGroup
	sem := make(chan struct{}, 6)
	// generation consumes the generator sequentially so that a run is reproducible from its seed
	for i := 0; i < ntrees; i++ {
		sub := hutil.NewRng(rng.Next())
		lint := i < nlint
		if lint {
			wg.Add(1)
			go func(i int) {
				defer wg.Done()
				sem <- struct{}{}
				cases[i] = runTree(ctx, sub, i, wabs, extra, true, nil)
				<-sem
			}(i)
		} else {
			cases[i] = runTree(ctx, sub, i, wabs, extra, false, nil)
		}
	}
	wg.Wait()
	for _, c := range cases {
		out.Emit(c)
	}
	gen := hutil.NewRng(hutil.SeedFromEnv() ^ 0xc02)
	for i, n := range csizes {
		ws := probe.GenWorkspace(gen, i, n)
		out.Emit(runCompose(ctx, gen, i, ws, tier))
	}
}
