// C04 harness: which rules run and at which level.  Drives the real Go merge
// (Linter.GetConfig -> config.LoadConfigWithDefaultsFromBundle), the real Rego decision functions
// (data.regal.config.*, data.regal.main.*; evaluated with the embedded bundle), Linter.Lint and
// Linter.DetermineEnabledRules on generated configurations, and prints what the implementation did,
// one JSON object per line.
//
//	c04 <out.jsonl> <quick|thorough|replay> [cases.json]
package main

import (
	"context"
	"encoding/json"
	"fmt"
	"os"
	"runtime"
	"runtime/debug"
	"sort"
	"strings"
	"sync"
	"testing/fstest"

	"github.com/open-policy-agent/opa/v1/ast"
	"github.com/open-policy-agent/opa/v1/bundle"
	"github.com/open-policy-agent/opa/v1/rego"
	"gopkg.in/yaml.v3"

	rbundle "github.com/styrainc/regal/bundle"
	"github.com/styrainc/regal/pkg/builtins"
	"github.com/styrainc/regal/pkg/config"
	"github.com/styrainc/regal/pkg/linter"
	"github.com/styrainc/regal/pkg/report"
	"github.com/styrainc/regal/pkg/rules"
	"github.com/styrainc/roast/pkg/transform"

	"verifharness/hutil"
)

const (
	builtinCat   = "bugs"
	builtinTitle = "constant-condition"
	customCat    = "naming"
	customTitle  = "my-rule"
	aggCat       = "imports" // a bundled aggregate rule: aggregate + aggregate_report, no report
	aggTitle     = "unresolved-import"
	decoyRule    = "todo-comment"
	decoyCat     = "testing"
)

// one custom rule with a report, an aggregate and an aggregate_report body
const customRule = `# METADATA
# description: custom rule that always reports
package custom.regal.rules.naming["my-rule"]

import data.regal.result

report contains violation if {
	violation := result.fail(rego.metadata.chain(), result.location(input["package"]))
}

aggregate contains result.aggregate(rego.metadata.chain(), {})

aggregate_report contains violation if {
	violation := result.fail(rego.metadata.chain(), {})
}
`

const policy = "package p\n\nallow if 1 == 1\n"

// linted when the bundled aggregate rule is under observation: one import nothing resolves
const policyAgg = "package p\n\nimport data.nonexistent.foo\n\nallow if 1 == 1\n"

// files of the earlier run whose exported aggregates are supplied to "foreign" cases
const nCollectFiles = 2

// helper module evaluated next to the real bundle: it only *calls* regal's own rules/functions
const helper = `package verif.c04

import data.regal.config
import data.regal.main

default ignored := false

ignored if config.ignored_rule(input.verif.cat, input.verif.title)

default fd := false

fd if config._force_disabled(data.eval.params, input.verif.cat, input.verif.title)

default fe := false

fe if config._force_enabled(data.eval.params, input.verif.cat, input.verif.title)

default to_run := false

to_run if input.verif.title in main._rules_to_run[input.verif.cat]

out := {
	"ignored": ignored,
	"fd": fd,
	"fe": fe,
	"level": config.level_for_rule(input.verif.cat, input.verif.title),
	"to_run": to_run,
	"report": [[v.category, v.title, v.level] | some v in main.report],
	"aggregate": object.keys(main.aggregate),
	"aggregate_full": main.aggregate,
}

# distinct triples: a rule may report once per file the aggregates stem from
agg_report := {[v.category, v.title, v.level] | some v in main.aggregate_report}

to_run_all := {sprintf("%s/%s", [c, t]) | some c, ts in main._rules_to_run; some t in ts}

noticed := {sprintf("%s/%s", [c, t]) | some c, ts in main._grouped_notices; some t, ns in ts; count(ns) > 0}

noticed_noinput := {sprintf("%s/%s", [c, t]) | some c, t; count(data.regal.rules[c][t].notices) > 0}

bundled := {sprintf("%s/%s", [c, t]) | some c, ts in data.regal.rules; some t, _ in ts}

bundled_aggregate := {sprintf("%s/%s", [c, t]) | some c, ts in data.regal.rules; some t, r in ts; r.aggregate}
`

// ---------------------------------------------------------------------------------------------

type Params struct {
	DisableAll      bool     `json:"disable_all"`
	DisableCategory []string `json:"disable_category"`
	Disable         []string `json:"disable"`
	EnableAll       bool     `json:"enable_all"`
	EnableCategory  []string `json:"enable_category"`
	Enable          []string `json:"enable"`
}

// CaseIn is a self-contained case (also the replay format).
type CaseIn struct {
	// provided configuration: category -> rule -> level; nil level = entry without level.
	// FullBundle: use regal's real provided configuration instead.
	FullBundle bool                          `json:"full_bundle"`
	Provided   map[string]map[string]*string `json:"provided"`
	// user configuration as the JSON/YAML document a user writes; NoUser = no configuration at all
	NoUser bool           `json:"no_user"`
	User   map[string]any `json:"user"`
	Params Params         `json:"params"`
	// custom rule loaded?
	Custom bool `json:"custom"`
	// rule under observation
	Cat   string `json:"cat"`
	Title string `json:"title"`
	// which layers to run
	Fn    bool `json:"fn"`
	Lint  bool `json:"lint"`
	Files int  `json:"files"`
	// also call DetermineEnabledAggregateRules (each Determine* call compiles the whole bundle)
	EnabledAgg bool `json:"enabled_agg"`
	// "" = one run.  "foreign" = two steps: (1) an earlier run over nCollectFiles files with every rule
	// enabled (no user configuration, no overrides) and WithExportAggregates; (2) this case's
	// configuration, with WithAggregates(<what step 1 exported>).  Files may be 0 then.
	Supply string `json:"supply,omitempty"`
}

type CaseOut struct {
	Err string `json:"err,omitempty"`
	// Go merge
	GoEntry *string `json:"go_entry"` // nil = no entry for cat/title in the merged configuration
	// Rego functions (function level)
	Ignored   bool       `json:"ignored"`
	FD        bool       `json:"fd"`
	FE        bool       `json:"fe"`
	Level     string     `json:"level"`
	ToRun     bool       `json:"to_run"`
	Report    [][]string `json:"report"`
	Aggregate []string   `json:"aggregate"`
	AggReport [][]string `json:"agg_report"`
	// main.aggregate_report fed with the aggregates exported by the earlier, all-enabled run
	AggReportForeign [][]string `json:"agg_report_foreign"`
	// full lint
	LintErr        string     `json:"lint_err,omitempty"`
	LintViolations [][]string `json:"lint_violations"` // [category, title, level, "agg"|"file"]
	Enabled        []string   `json:"enabled"`
	EnabledAgg     []string   `json:"enabled_agg"`
	EnabledErr     string     `json:"enabled_err,omitempty"`
	// for full-bundle cases: the sets main.rego computes for the same configuration
	ToRunAll       []string `json:"to_run_all"`
	Noticed        []string `json:"noticed"`
	NoticedNoInput []string `json:"noticed_noinput"` // notices that do not depend on the input (what DetermineEnabledRules sees)
}

type env struct {
	ctx       context.Context
	customMod *ast.Module
	pqFn      rego.PreparedEvalQuery
	pqAgg     rego.PreparedEvalQuery
	pqSets    rego.PreparedEvalQuery
	pqNoIn    rego.PreparedEvalQuery
	pqBundled rego.PreparedEvalQuery
	astBase   ast.Object
	astAgg    ast.Object
	// aggregates exported by the earlier run (step 1 of "foreign" cases), and what that run reported
	foreignAggs map[string][]report.Aggregate
	foreignIn   ast.Value // the same as the "aggregates_internal" of an aggregate_report input
	foreignErr  string
	mu          sync.Mutex
	bundles     map[string]*bundle.Bundle
}

func must(err error) {
	if err != nil {
		panic(err)
	}
}

func newEnv() *env {
	e := &env{ctx: context.Background(), bundles: map[string]*bundle.Bundle{}}
	// distinct file names: rego.ParsedModule keys modules by the file of their package location
	var err error
	e.customMod, err = ast.ParseModuleWithOpts("my_rule.rego", customRule, ast.ParserOptions{ProcessAnnotation: true})
	must(err)
	helperMod, err := ast.ParseModuleWithOpts("verif_helper.rego", helper, ast.ParserOptions{})
	must(err)
	prep := func(q string, custom bool) rego.PreparedEvalQuery {
		args := append([]func(*rego.Rego){
			rego.ParsedQuery(ast.MustParseBody(q)),
			rego.StoreReadAST(true),
			rego.ParsedBundle("regal", &rbundle.LoadedBundle),
			rego.ParsedModule(helperMod),
		}, builtins.RegalBuiltinRegoFuncs...)
		if custom {
			args = append(args, rego.ParsedModule(e.customMod))
		}
		pq, err := rego.New(args...).PrepareForEval(e.ctx)
		must(err)
		return pq
	}
	with := ` with data.eval.params as input.verif.params with data.internal.combined_config as input.verif.cfg`
	e.pqFn = prep(`o := data.verif.c04.out`+with, true)
	e.pqAgg = prep(`o := data.verif.c04.agg_report`+with, true)
	e.pqSets = prep(`o := {"to_run_all": data.verif.c04.to_run_all, "noticed": data.verif.c04.noticed}`+with, false)
	e.pqNoIn = prep(`o := data.verif.c04.noticed_noinput`+with, false)
	e.pqBundled = prep(`o := {"bundled": data.verif.c04.bundled, "bundled_aggregate": data.verif.c04.bundled_aggregate}`, false)
	toAST := func(text string) ast.Object {
		in, err := rules.InputFromText("p.rego", text)
		must(err)
		v, err := transform.ToAST("p.rego", text, in.Modules["p.rego"], true)
		must(err)
		return v.(ast.Object)
	}
	e.astBase = toAST(policy)
	e.astAgg = toAST(policyAgg)
	e.collect()
	return e
}

// collect: step 1 of the two-step cases.  A real Lint run in which the custom aggregate rule and the
// bundled aggregate rule are both enabled (provided level error, no user configuration, no overrides),
// with WithExportAggregates: Report.Aggregates is what a later run gets through WithAggregates.
func (e *env) collect() {
	c := CaseIn{Custom: true, NoUser: true, Provided: map[string]map[string]*string{
		builtinCat: {builtinTitle: sp("error")}, aggCat: {aggTitle: sp("error")}}}
	l, err := e.baseLinter(&c)
	if err != nil {
		e.foreignErr = "collect run: " + err.Error()
		return
	}
	input := inputFiles("q", policyAgg, nCollectFiles)
	rep, err := l.WithExportAggregates(true).WithInputModules(&input).Lint(e.ctx)
	if err != nil {
		e.foreignErr = "collect run: " + err.Error()
		return
	}
	for _, k := range []string{customCat + "/" + customTitle, aggCat + "/" + aggTitle} {
		if len(rep.Aggregates[k]) != nCollectFiles {
			e.foreignErr = fmt.Sprintf("collect run (every rule enabled) exported %d aggregates for %s, expected %d", len(rep.Aggregates[k]), k, nCollectFiles)
			return
		}
	}
	e.foreignAggs = rep.Aggregates
	bs, err := json.Marshal(rep.Aggregates)
	must(err)
	var m map[string]any
	must(json.Unmarshal(bs, &m))
	e.foreignIn, err = transform.ToOPAInputValue(m)
	must(err)
}

func inputFiles(prefix, text string, n int) rules.Input {
	content := map[string]string{}
	mods := map[string]*ast.Module{}
	for i := 0; i < n; i++ {
		name := fmt.Sprintf("%s%d.rego", prefix, i)
		t := strings.Replace(text, "package p", fmt.Sprintf("package %s%d", prefix, i), 1)
		in, err := rules.InputFromText(name, t)
		must(err)
		content[name] = t
		mods[name] = in.Modules[name]
	}
	return rules.NewInput(content, mods)
}

// the policy that makes the rule under observation speak
func policyFor(c *CaseIn) string {
	if c.Cat == aggCat && c.Title == aggTitle {
		return policyAgg
	}
	return policy
}

// a copy of regal's bundle whose provided configuration has exactly the given rules
func (e *env) bundleFor(c *CaseIn) *bundle.Bundle {
	if c.FullBundle {
		return &rbundle.LoadedBundle
	}
	key, _ := json.Marshal(c.Provided)
	e.mu.Lock()
	defer e.mu.Unlock()
	if b, ok := e.bundles[string(key)]; ok {
		return b
	}
	rulesMap := map[string]any{}
	for cat, rs := range c.Provided {
		cm := map[string]any{}
		for t, l := range rs {
			r := map[string]any{}
			if l != nil {
				r["level"] = *l
			}
			cm[t] = r
		}
		rulesMap[cat] = cm
	}
	b := rbundle.LoadedBundle // shallow copy; only Data.regal.config.provided is replaced
	regal := copyMap(b.Data["regal"])
	conf := copyMap(regal["config"])
	prov := copyMap(conf["provided"])
	prov["rules"] = rulesMap
	conf["provided"] = prov
	regal["config"] = conf
	data := copyMap(b.Data)
	data["regal"] = regal
	b.Data = data
	e.bundles[string(key)] = &b
	return &b
}

func copyMap(x any) map[string]any {
	m, _ := x.(map[string]any)
	r := make(map[string]any, len(m))
	for k, v := range m {
		r[k] = v
	}
	return r
}

func mapfs(m map[string]string) fstest.MapFS {
	r := fstest.MapFS{}
	for k, v := range m {
		r[k] = &fstest.MapFile{Data: []byte(v)}
	}
	return r
}

func (e *env) baseLinter(c *CaseIn) (linter.Linter, error) {
	l := linter.NewEmptyLinter().WithAddedBundle(e.bundleFor(c))
	if !c.NoUser {
		// the document goes through yaml.Unmarshal -> Config.UnmarshalYAML, as for a user's file
		bs, err := json.Marshal(c.User)
		if err != nil {
			return l, err
		}
		var uc config.Config
		if err := yaml.Unmarshal(bs, &uc); err != nil {
			return l, fmt.Errorf("user config: %w", err)
		}
		l = l.WithUserConfig(uc)
	}
	if c.Custom {
		l = l.WithCustomRulesFromFS(mapfs(map[string]string{"my_rule.rego": customRule}), ".")
	}
	p := c.Params
	return l.WithDisableAll(p.DisableAll).WithDisabledCategories(p.DisableCategory...).WithDisabledRules(p.Disable...).
		WithEnableAll(p.EnableAll).WithEnabledCategories(p.EnableCategory...).WithEnabledRules(p.Enable...), nil
}

func nn(xs []string) []string {
	if xs == nil {
		return []string{}
	}
	return xs
}

func paramsValue(p Params) map[string]any {
	return map[string]any{
		"disable_all": p.DisableAll, "disable_category": nn(p.DisableCategory), "disable": nn(p.Disable),
		"enable_all": p.EnableAll, "enable_category": nn(p.EnableCategory), "enable": nn(p.Enable),
		"ignore_files": []string{},
	}
}

func triples(x any) [][]string {
	out := [][]string{}
	arr, _ := x.([]any)
	for _, it := range arr {
		row, _ := it.([]any)
		var r []string
		for _, f := range row {
			s, ok := f.(string)
			if !ok {
				s = fmt.Sprintf("<%v>", f)
			}
			r = append(r, s)
		}
		out = append(out, r)
	}
	sort.Slice(out, func(i, j int) bool { return strings.Join(out[i], "\x00") < strings.Join(out[j], "\x00") })
	return out
}

func strs(x any) []string {
	out := []string{}
	arr, _ := x.([]any)
	for _, it := range arr {
		if s, ok := it.(string); ok {
			out = append(out, s)
		}
	}
	sort.Strings(out)
	return out
}

// cfgCache: the merged configuration only depends on (bundle, user document, custom)
type mergedCfg struct {
	conf  *config.Config
	value *ast.Term
	err   error
}

var (
	cfgMu    sync.Mutex
	cfgCache = map[string]*mergedCfg{}
)

func (e *env) merged(c *CaseIn) *mergedCfg {
	kb, _ := json.Marshal([]any{c.FullBundle, c.Provided, c.NoUser, c.User, c.Custom})
	cfgMu.Lock()
	if m, ok := cfgCache[string(kb)]; ok {
		cfgMu.Unlock()
		return m
	}
	cfgMu.Unlock()
	m := &mergedCfg{}
	l, err := e.baseLinter(c)
	if err == nil {
		m.conf, err = l.GetConfig()
	}
	if err == nil {
		var v ast.Value
		v, err = transform.ToOPAInputValue(config.ToMap(*m.conf))
		if err == nil {
			m.value = ast.NewTerm(v)
		}
	}
	m.err = err
	cfgMu.Lock()
	cfgCache[string(kb)] = m
	cfgMu.Unlock()
	return m
}

func (e *env) runCase(c *CaseIn) CaseOut {
	var o CaseOut
	m := e.merged(c)
	if m.err != nil {
		o.Err = m.err.Error()
		return o
	}
	if cat, ok := m.conf.Rules[c.Cat]; ok {
		if r, ok := cat[c.Title]; ok {
			lvl := r.Level
			o.GoEntry = &lvl
		}
	}
	if c.Fn {
		pv, err := transform.ToOPAInputValue(paramsValue(c.Params))
		must(err)
		verif := ast.ObjectTerm(
			ast.Item(ast.StringTerm("cat"), ast.StringTerm(c.Cat)),
			ast.Item(ast.StringTerm("title"), ast.StringTerm(c.Title)),
			ast.Item(ast.StringTerm("params"), ast.NewTerm(pv)),
			ast.Item(ast.StringTerm("cfg"), m.value),
		)
		in := ast.NewObject()
		base := e.astBase
		if policyFor(c) == policyAgg {
			base = e.astAgg
		}
		base.Foreach(func(k, v *ast.Term) { in.Insert(k, v) })
		in.Insert(ast.StringTerm("verif"), verif)
		rs, err := e.pqFn.Eval(e.ctx, rego.EvalParsedInput(in))
		if err != nil || len(rs) != 1 {
			o.Err = fmt.Sprintf("fn eval: %v (%d results)", err, len(rs))
			return o
		}
		r := rs[0].Bindings["o"].(map[string]any)
		o.Ignored, _ = r["ignored"].(bool)
		o.FD, _ = r["fd"].(bool)
		o.FE, _ = r["fe"].(bool)
		o.Level, _ = r["level"].(string)
		o.ToRun, _ = r["to_run"].(bool)
		o.Report = triples(r["report"])
		o.Aggregate = strs(r["aggregate"])
		// the aggregate report phase, (a) fed with what the collect phase of this very configuration
		// produced (one run), (b) fed with what an earlier run, in which every rule was enabled, exported
		aggReport := func(aggs ast.Value) ([][]string, error) {
			ain, err := transform.ToOPAInputValue(map[string]any{
				"ignore_directives": map[string]any{},
				"regal": map[string]any{"operations": []string{"aggregate"},
					"file": map[string]any{"name": "__aggregate_report__", "lines": []string{}}},
			})
			if err != nil {
				return nil, err
			}
			ainObj := ain.(ast.Object)
			ainObj.Insert(ast.StringTerm("aggregates_internal"), ast.NewTerm(aggs))
			ainObj.Insert(ast.StringTerm("verif"), verif)
			rs, err := e.pqAgg.Eval(e.ctx, rego.EvalParsedInput(ainObj))
			if err != nil || len(rs) != 1 {
				return nil, fmt.Errorf("agg eval: %v (%d results)", err, len(rs))
			}
			return triples(rs[0].Bindings["o"]), nil
		}
		own, _ := r["aggregate_full"].(map[string]any)
		if own == nil {
			own = map[string]any{}
		}
		ownV, err := transform.ToOPAInputValue(own)
		must(err)
		if o.AggReport, err = aggReport(ownV); err != nil {
			o.Err = err.Error()
			return o
		}
		if e.foreignErr != "" {
			o.Err = e.foreignErr
			return o
		}
		if o.AggReportForeign, err = aggReport(e.foreignIn); err != nil {
			o.Err = err.Error()
			return o
		}
		if c.FullBundle {
			rs, err = e.pqSets.Eval(e.ctx, rego.EvalParsedInput(in))
			if err != nil || len(rs) != 1 {
				o.Err = fmt.Sprintf("sets eval: %v (%d results)", err, len(rs))
				return o
			}
			r := rs[0].Bindings["o"].(map[string]any)
			o.ToRunAll = strs(r["to_run_all"])
			o.Noticed = strs(r["noticed"])
		}
		if c.Lint {
			noIn := ast.NewObject()
			noIn.Insert(ast.StringTerm("verif"), verif)
			rs, err = e.pqNoIn.Eval(e.ctx, rego.EvalParsedInput(noIn))
			if err != nil || len(rs) != 1 {
				o.Err = fmt.Sprintf("noinput eval: %v (%d results)", err, len(rs))
				return o
			}
			o.NoticedNoInput = strs(rs[0].Bindings["o"])
		}
	}
	if c.Lint {
		l, err := e.baseLinter(c)
		must(err)
		nfiles := c.Files
		if nfiles < 1 && c.Supply != "foreign" {
			nfiles = 1
		}
		if c.Supply == "foreign" {
			if e.foreignErr != "" {
				o.Err = e.foreignErr
				return o
			}
			l = l.WithAggregates(e.foreignAggs)
		}
		if nfiles > 0 {
			input := inputFiles("p", policyFor(c), nfiles)
			l = l.WithInputModules(&input)
		}
		rep, err := l.Lint(e.ctx)
		if err != nil {
			o.LintErr = errClass(err)
		}
		o.LintViolations = [][]string{}
		for _, v := range rep.Violations {
			kind := "file"
			if v.IsAggregate {
				kind = "agg"
			}
			o.LintViolations = append(o.LintViolations, []string{v.Category, v.Title, v.Level, kind})
		}
		sort.Slice(o.LintViolations, func(i, j int) bool {
			return strings.Join(o.LintViolations[i], "\x00") < strings.Join(o.LintViolations[j], "\x00")
		})
		en, err := l.DetermineEnabledRules(e.ctx)
		if err != nil {
			o.EnabledErr = err.Error()
		}
		o.Enabled = nn(en)
		if c.EnabledAgg {
			ena, err := l.DetermineEnabledAggregateRules(e.ctx)
			if err != nil {
				o.EnabledErr += " / " + err.Error()
			}
			o.EnabledAgg = nn(ena)
		}
	}
	return o
}

func errClass(err error) string {
	s := err.Error()
	switch {
	case strings.Contains(s, "unknown categories") && strings.Contains(s, "unknown rules"):
		return "unknown-categories-and-rules"
	case strings.Contains(s, "unknown categories"):
		return "unknown-categories"
	case strings.Contains(s, "unknown rules"):
		return "unknown-rules"
	}
	return "other: " + s
}

// ---------------------------------------------------------------------------------------------
// generators

var lvlNames = []string{"", "ignore", "warning", "error"}

func sp(s string) *string { return &s }

// exhaustive function-level case.  codes: p: 0 missing, 1 entry without level, 2..4 ignore/warning/error;
// u: 0 rule absent from user config, 1 present without level, 2..4; c: same for the category default;
// g: 0 none, 1..3; flags: bit0 disable, bit1 enable, bit2 disable_category, bit3 enable_category,
// bit4 disable_all, bit5 enable_all; decoy: the lists also name another rule / category
//
// k: the rule under observation: 0 bundled bugs/constant-condition (report), 1 custom naming/my-rule
// (report, aggregate, aggregate_report), 2 bundled imports/unresolved-import (aggregate, aggregate_report)
func codeCase(k int, p, u, c, g int, noUser bool, flags int, decoy bool) CaseIn {
	cat, title := builtinCat, builtinTitle
	pcat, ptitle := cat, title
	switch k {
	case 1:
		cat, title = customCat, customTitle
	case 2:
		cat, title = aggCat, aggTitle
		pcat, ptitle = cat, title
	}
	ci := CaseIn{Custom: true, Cat: cat, Title: title, Fn: true}
	pl := p
	if k == 1 {
		pl = 4 // the bundled rule keeps a fixed level while the custom rule is under test
	}
	ci.Provided = map[string]map[string]*string{}
	switch pl {
	case 0:
	case 1:
		ci.Provided[pcat] = map[string]*string{ptitle: nil}
	default:
		ci.Provided[pcat] = map[string]*string{ptitle: sp(lvlNames[pl-1])}
	}
	if noUser {
		ci.NoUser = true
	} else {
		ci.User = userDoc(cat, title, u, c, g)
	}
	ci.Params = flagParams(cat, title, flags, decoy)
	return ci
}

func userDoc(cat, title string, u, c, g int) map[string]any {
	rulesDoc := map[string]any{}
	if g > 0 {
		rulesDoc["default"] = map[string]any{"level": lvlNames[g]}
	}
	catDoc := map[string]any{}
	switch c {
	case 0:
	case 1:
		catDoc["default"] = map[string]any{}
	default:
		catDoc["default"] = map[string]any{"level": lvlNames[c-1]}
	}
	switch u {
	case 0:
	case 1:
		catDoc[title] = map[string]any{}
	default:
		catDoc[title] = map[string]any{"level": lvlNames[u-1]}
	}
	if len(catDoc) > 0 {
		rulesDoc[cat] = catDoc
	}
	return map[string]any{"rules": rulesDoc}
}

func flagParams(cat, title string, flags int, decoy bool) Params {
	var p Params
	if decoy {
		p.Disable, p.Enable = []string{decoyRule}, []string{decoyRule}
		p.DisableCategory, p.EnableCategory = []string{decoyCat}, []string{decoyCat}
	}
	if flags&1 != 0 {
		p.Disable = append(p.Disable, title)
	}
	if flags&2 != 0 {
		p.Enable = append(p.Enable, title)
	}
	if flags&4 != 0 {
		p.DisableCategory = append(p.DisableCategory, cat)
	}
	if flags&8 != 0 {
		p.EnableCategory = append(p.EnableCategory, cat)
	}
	p.DisableAll = flags&16 != 0
	p.EnableAll = flags&32 != 0
	return p
}

type job struct {
	id     int
	stream string
	code   map[string]any
	in     CaseIn
}

func main() {
	if len(os.Args) < 3 {
		fmt.Fprintln(os.Stderr, "usage: c04 <out.jsonl> <quick|thorough|replay> [cases.json]")
		os.Exit(2)
	}
	out := hutil.NewOut(os.Args[1])
	defer out.Close()
	tier := os.Args[2]
	// evaluation allocates heavily and nothing is long-lived but the prepared queries: trade memory for collector time
	debug.SetGCPercent(250)
	e := newEnv()
	rng := hutil.NewRng(hutil.SeedFromEnv())

	var jobs []job
	add := func(stream string, code map[string]any, in CaseIn) {
		jobs = append(jobs, job{id: len(jobs), stream: stream, code: code, in: in})
	}

	// a file with a JSON list of cases: the corpus (run first) or, with tier "replay", only these
	if len(os.Args) > 3 {
		bs, err := os.ReadFile(os.Args[3])
		must(err)
		var ins []CaseIn
		must(json.Unmarshal(bs, &ins))
		for _, in := range ins {
			add("corpus", nil, in)
		}
	}
	// what the real bundle contains (ties Gen/RulesTable.v to what OPA loads; also needed to replay a single case)
	rs, err := e.pqBundled.Eval(e.ctx)
	must(err)
	r := rs[0].Bindings["o"].(map[string]any)
	out.Emit(map[string]any{"stream": "bundled", "bundled": strs(r["bundled"]), "bundled_aggregate": strs(r["bundled_aggregate"])})
	if tier != "replay" {

		// ---- exhaustive function level
		for k := 0; k < 3; k++ {
			// provided level missing / without a level (p = 0, 1) cannot happen for a bundled rule (an obligation on
			// Gen/RulesTable.v); the model is compared on them in the thorough tier only
			ps := []int{2, 3, 4}
			if k == 2 {
				ps = []int{4} // the bundled aggregate rule: as for the custom rule; default-off in the two-step Lint cases
			}
			if tier == "thorough" {
				ps = []int{0, 1, 2, 3, 4}
			}
			if k == 1 {
				ps = []int{4}
			}
			for _, p := range ps {
				for u := 0; u < 5; u++ {
					for c := 0; c < 5; c++ {
						for g := 0; g < 4; g++ {
							for f := 0; f < 64; f++ {
								decoy := (p+u+c+g+f)%2 == 1 // the lists also name another rule / category in every other case
								add("fn", map[string]any{"k": k, "p": p, "u": u, "c": c, "g": g, "nu": 0, "f": f, "d": b2i(decoy)},
									codeCase(k, p, u, c, g, false, f, decoy))
							}
						}
					}
				}
				for f := 0; f < 64; f++ { // no user configuration at all
					decoy := (p+f)%2 == 1
					add("fn", map[string]any{"k": k, "p": p, "u": 0, "c": 0, "g": 0, "nu": 1, "f": f, "d": b2i(decoy)},
						codeCase(k, p, 0, 0, 0, true, f, decoy))
				}
			}
		}
		// ---- full Lint + DetermineEnabledRules on sampled combinations (reduced and real provided config)
		nLint := 32
		nGen := 48
		if tier == "thorough" {
			nLint, nGen = 500, 600
		}
		if v := os.Getenv("C04_N"); v != "" {
			fmt.Sscanf(v, "%d,%d", &nLint, &nGen)
		}
		for i := 0; i < nLint; i++ {
			custom := rng.Bool()
			p, u, c, g, f := 2+rng.Below(3), rng.Below(5), rng.Below(5), rng.Below(4), rng.Below(64)
			if rng.Below(3) == 0 {
				f = []int{0, 1, 2, 4, 8, 16, 32, 3, 12, 48}[rng.Below(10)]
			}
			noUser := rng.Below(10) == 0
			if noUser {
				u, c, g = 0, 0, 0
			}
			ci := codeCase(b2i(custom), p, u, c, g, noUser, f, false)
			ci.Lint = true
			ci.EnabledAgg = rng.Below(4) == 0
			ci.Files = []int{1, 3}[rng.Below(2)]
			if rng.Below(3) == 0 {
				// the real provided configuration: the bundled rule's default is what data.yaml says
				ci.FullBundle, ci.Provided = true, nil
				if custom {
					p = 4
				} else {
					p = 4 // bugs/constant-condition: error (checked against Gen/RulesTable.v on the Coq side)
				}
			}
			if !noUser && rng.Below(3) == 0 {
				// an older target: some bundled rules then carry an input-independent notice and must not be
				// in the list computed up front
				ci.User["capabilities"] = map[string]any{"from": map[string]any{"engine": "opa", "version": oldTargets[rng.Below(len(oldTargets))]}}
			}
			add("lint", map[string]any{"k": b2i(custom), "p": p, "u": u, "c": c, "g": g, "nu": b2i(noUser), "f": f, "d": 0,
				"full": b2i(ci.FullBundle), "files": ci.Files}, ci)
		}
		// ---- two steps: aggregates collected in an earlier run in which every rule was on, reported on under
		// this configuration.  For the custom aggregate rule and the bundled aggregate rule, every documented way
		// of switching a rule off or on (each command line tier alone, the pairs the README ranks, each tier of the
		// configuration file) x {aggregates supplied from the earlier run, linting 0 / 1 / 3 files; one run}
		type way struct{ p, u, c, g, f int }
		ways := []way{}
		for _, f := range []int{0, 1, 2, 4, 8, 16, 32, 3, 6, 12, 24, 48, 17, 18, 33, 36} {
			ways = append(ways, way{4, 0, 0, 0, f})
		}
		for _, w := range []way{{4, 2, 0, 0, 0}, {4, 0, 2, 0, 0}, {4, 0, 0, 1, 0}, {4, 1, 0, 1, 0}, {4, 4, 2, 1, 0}, {4, 0, 4, 1, 0},
			{4, 2, 0, 0, 2}, {4, 0, 2, 0, 8}, {4, 0, 0, 1, 32}, {4, 4, 0, 0, 16},
			{2, 0, 0, 0, 0}, {2, 4, 0, 0, 0}, {2, 0, 3, 0, 0}, {2, 0, 0, 3, 0}, {2, 0, 0, 0, 2}, {2, 0, 0, 0, 32}} {
			ways = append(ways, w)
		}
		n := 0
		for _, k := range []int{1, 2} {
			for wi, w := range ways {
				if k == 1 && w.p != 4 {
					continue // a custom rule has no provided level
				}
				for si, files := range []int{0, 1, 3, -3} { // -3: one run over three files
					n++
					if tier != "thorough" && si != (wi+k)%3 && !(si == 3 && wi%4 == k%4) {
						continue
					}
					ci := codeCase(k, w.p, w.u, w.c, w.g, false, w.f, false)
					ci.Lint, ci.EnabledAgg = true, true
					if files >= 0 {
						ci.Supply, ci.Files = "foreign", files
					} else {
						ci.Files = -files
					}
					if n%3 == 0 && w.p == 4 { // regal's real provided configuration (unresolved-import: error)
						ci.FullBundle, ci.Provided = true, nil
					}
					add("lint", map[string]any{"k": k, "p": w.p, "u": w.u, "c": w.c, "g": w.g, "nu": 0, "f": w.f, "d": 0,
						"full": b2i(ci.FullBundle), "files": ci.Files, "supply": ci.Supply}, ci)
				}
			}
		}
		// ---- generated configurations over the real bundle (explicit data)
		for i := 0; i < nGen; i++ {
			add("gen", nil, genCase(rng, r, i))
		}
	}

	results := make([]CaseOut, len(jobs))
	var wg sync.WaitGroup
	ch := make(chan int, 256)
	nw := runtime.NumCPU()
	for w := 0; w < nw; w++ {
		wg.Add(1)
		go func() {
			defer wg.Done()
			for i := range ch {
				results[i] = e.runCase(&jobs[i].in)
			}
		}()
	}
	for i := range jobs {
		ch <- i
	}
	close(ch)
	wg.Wait()
	for i, j := range jobs {
		rec := map[string]any{"stream": j.stream, "id": j.id, "out": results[i]}
		if j.code != nil {
			rec["code"] = j.code
		}
		rec["in"] = j.in
		out.Emit(rec)
	}
}

func b2i(b bool) int {
	if b {
		return 1
	}
	return 0
}

// older OPA targets: rules whose advice needs a newer built-in / keyword get a notice there
var oldTargets = []string{"v0.46.0", "v0.33.0", "v0.59.0"}

// oddLevels: the malformed part of the level alphabet
var oddLevels = []string{"Ignore", "IGNORE", "off", "none", " error", "errors", "warn", "0", "ignore "}

// genCase: a random configuration over the real bundle: several rules / categories / defaults, random
// command line lists (real names, so that Lint's validation accepts them; sometimes unknown ones)
func genCase(rng *hutil.Rng, bundledInfo map[string]any, i int) CaseIn {
	all := strs(bundledInfo["bundled"])
	cats := []string{"bugs", "custom", "idiomatic", "imports", "performance", "style", "testing"}
	pick := func() (string, string) {
		ct := strings.SplitN(hutil.Choice(rng, all), "/", 2)
		return ct[0], ct[1]
	}
	lvl := func() any {
		switch rng.Below(12) {
		case 0:
			return nil // no level key
		case 1:
			return hutil.Choice(rng, oddLevels)
		case 2:
			return 5 // not a string
		}
		return lvlNames[1+rng.Below(3)]
	}
	doc := map[string]any{}
	setLevel := func(m map[string]any, l any) {
		if l != nil {
			m["level"] = l
		}
	}
	if rng.Below(2) == 0 {
		d := map[string]any{}
		setLevel(d, lvl())
		doc["default"] = d
	}
	for n := rng.Below(4); n > 0; n-- {
		c := hutil.Choice(rng, cats)
		cd, _ := doc[c].(map[string]any)
		if cd == nil {
			cd = map[string]any{}
		}
		d := map[string]any{}
		setLevel(d, lvl())
		cd["default"] = d
		doc[c] = cd
	}
	cat, title := pick()
	for n := rng.Below(5); n >= 0; n-- {
		c, t := pick()
		if rng.Below(8) == 0 {
			c = hutil.Choice(rng, cats) // a rule configured under a category that is not its own
		}
		cd, _ := doc[c].(map[string]any)
		if cd == nil {
			cd = map[string]any{}
		}
		r := map[string]any{}
		setLevel(r, lvl())
		cd[t] = r
		doc[c] = cd
		if rng.Below(2) == 0 {
			cat, title = c, t
		}
	}
	custom := rng.Below(3) == 0
	if custom && rng.Below(2) == 0 {
		cat, title = customCat, customTitle
		if rng.Below(2) == 0 {
			cd, _ := doc[customCat].(map[string]any)
			if cd == nil {
				cd = map[string]any{}
			}
			r := map[string]any{}
			setLevel(r, lvl())
			cd[customTitle] = r
			doc[customCat] = cd
		}
	}
	var p Params
	names := func() []string {
		var xs []string
		for n := rng.Below(3); n > 0; n-- {
			_, t := pick()
			if rng.Below(4) == 0 {
				t = title
			}
			xs = append(xs, t)
		}
		return xs
	}
	catNames := func() []string {
		var xs []string
		for n := rng.Below(3); n > 0; n-- {
			c := hutil.Choice(rng, cats)
			if rng.Below(3) == 0 {
				c = cat
			}
			xs = append(xs, c)
		}
		return xs
	}
	if rng.Below(2) == 0 {
		p.Disable, p.Enable = names(), names()
		p.DisableCategory, p.EnableCategory = catNames(), catNames()
		p.DisableAll, p.EnableAll = rng.Below(4) == 0, rng.Below(4) == 0
	}
	userDoc := map[string]any{"rules": doc}
	if rng.Below(3) == 0 {
		userDoc["capabilities"] = map[string]any{"from": map[string]any{"engine": "opa", "version": oldTargets[rng.Below(len(oldTargets))]}}
	}
	ci := CaseIn{FullBundle: true, User: userDoc, Params: p, Custom: custom, Cat: cat, Title: title,
		Fn: true, Lint: true, Files: 1, EnabledAgg: rng.Below(4) == 0}
	if rng.Below(12) == 0 {
		ci.NoUser, ci.User = true, nil
	}
	if custom && rng.Below(2) == 0 {
		ci.Supply, ci.Files, ci.EnabledAgg = "foreign", rng.Below(3), true
	}
	return ci
}
