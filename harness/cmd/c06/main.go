// C06 harness: inline ignore directives.
//
//	helpers : data.regal.ast.ignore_directives, data.regal.main._ignored, data.regal.util.keys_to_numbers and
//	          data.regal.main.lint.ignore_directives evaluated by OPA on the real embedded bundle, on generated
//	          comment texts / rows (kinds "dir", "ign", "key", "carry")
//	e2e     : linter.Lint on generated modules, before/after inserting a directive comment for every violation x
//	          4 placements x 4 spellings, for built-in rules and a custom rule (kind "e2e")
//	agg     : the same for aggregate rules (built-in and custom) in multi-file workspaces, one-shot and two-phase
//	          (collect per file, WithAggregates, with and without the exported directives) (kind "agg")
//	hist    : histories of single-file replacements through the public API: a file goes from some directives to
//	          none and back while a client hands Report.IgnoreDirectives on (WithIgnoreDirectives) (kind "hist")
//
// The property predicate (which violations must disappear / stay / move) is evaluated here from the names the
// generator put into the directive, independently of the Coq model; failures are emitted as kind "pred".
//
// usage: c06 <out.jsonl> <tier> <workdir> [replay.json]
package main

import (
	"context"
	"encoding/base64"
	"encoding/json"
	"fmt"
	"os"
	"path/filepath"
	"runtime"
	"sort"
	"strconv"
	"strings"
	"sync"
	"time"

	"github.com/open-policy-agent/opa/v1/rego"

	rbundle "github.com/styrainc/regal/bundle"
	"github.com/styrainc/regal/pkg/builtins"
	"github.com/styrainc/regal/pkg/linter"
	"github.com/styrainc/regal/pkg/report"
	"github.com/styrainc/regal/pkg/rules"

	"verifharness/hutil"
)

// ---------------------------------------------------------------- OPA helper evaluation

type opa struct {
	mu sync.Mutex
	pq map[string]*rego.PreparedEvalQuery
}

func (o *opa) prepared(q string) *rego.PreparedEvalQuery {
	o.mu.Lock()
	defer o.mu.Unlock()
	if p, ok := o.pq[q]; ok {
		return p
	}
	args := append([]func(*rego.Rego){
		rego.ParsedBundle("regal", &rbundle.LoadedBundle),
		rego.Query(q),
	}, builtins.RegalBuiltinRegoFuncs...)
	p, err := rego.New(args...).PrepareForEval(context.Background())
	if err != nil {
		panic(fmt.Sprintf("prepare %q: %v", q, err))
	}
	o.pq[q] = &p
	return &p
}

// eval returns (value of x, defined, error class)
func (o *opa) eval(q string, input any) (any, bool, string) {
	p := o.prepared(q)
	rs, err := p.Eval(context.Background(), rego.EvalInput(input))
	if err != nil {
		if strings.Contains(err.Error(), "eval_conflict_error") {
			return nil, false, "conflict"
		}
		return nil, false, "error: " + err.Error()
	}
	if len(rs) == 0 {
		return nil, false, ""
	}
	return rs[0].Bindings["x"], true, ""
}

const qDirs = `x := data.regal.ast.ignore_directives`
const qIgnored = `x := data.regal.main._ignored(input.v, data.regal.ast.ignore_directives)`
const qKeys = `x := data.regal.main._ignored(input.v, data.regal.util.keys_to_numbers(input.obj))`
const qCarry = `x := data.regal.main.lint.ignore_directives`

// ---------------------------------------------------------------- shared types

type Comment struct {
	Row  int   `json:"row"`
	Text []int `json:"text"` // bytes
}

type Viol struct {
	Cat   string `json:"cat"`
	Title string `json:"title"`
	File  string `json:"file"`
	Row   int    `json:"row"` // 0: no location
	Col   int    `json:"col"`
}

func bytesOf(s string) []int {
	b := []byte(s)
	r := make([]int, len(b))
	for i := range b {
		r[i] = int(b[i])
	}
	return r
}

func mkComment(row int, text string) Comment { return Comment{Row: row, Text: bytesOf(text)} }

func commentsInput(cs []Comment, texts []string) map[string]any {
	maxRow := 1
	arr := []any{}
	for i, c := range cs {
		var loc any = fmt.Sprintf("%d:1:%d:%d", c.Row, c.Row, 2+len(texts[i]))
		if c.Row > 64 {
			// huge rows: hand the location over as an object (to_location_object passes objects through),
			// a line table of that size is not needed then
			loc = map[string]any{"row": c.Row, "col": 1, "text": "#", "end": map[string]any{"row": c.Row, "col": 2}}
		} else if c.Row > maxRow {
			maxRow = c.Row
		}
		arr = append(arr, map[string]any{
			"text":     base64.StdEncoding.EncodeToString([]byte(texts[i])),
			"location": loc,
		})
	}
	lines := make([]any, maxRow)
	for i := range lines {
		lines[i] = ""
	}
	return map[string]any{
		"comments": arr,
		"regal": map[string]any{
			"operations": []any{"lint"},
			"file":       map[string]any{"name": "p.rego", "lines": lines},
		},
	}
}

// ---------------------------------------------------------------- generators for the helper level

var ruleNames = []string{"foo", "foo-bar", "line-length", "fo", "foo-bar-baz", "prefer-snake-case", "x"}

var pres = []string{" ", " ", " ", "", "  ", "\t", " note ", " TODO ", " regal ignore ", " ", " é ", " ", " # ", " regal ignore;x "}
var markers = []string{"regal ignore:", "regal ignore:", "regal ignore:", "regal ignore:", "regal ignore :", "regalignore:", "Regal ignore:", "regal ignore", "", "regal ignore:regal ignore:"}
var wss = []string{"", "", "", " ", " ", "  ", "\t", "\r", "\f", "\v", " ", " ", "　", "\u0085", " ", " ", " ", " "}
var oddNames = []string{"", "a b", "é", "foo x", "x\vy", "foo:bar", "FOO", "foo_bar", "foo-bar "}
var tails = []string{"", "", "", " ", " ", "\v", "　 ", "  ", " regal ignore:zzz", "\r"}

func genName(r *hutil.Rng) string {
	if r.Below(6) == 0 {
		return hutil.Choice(r, oddNames)
	}
	return hutil.Choice(r, ruleNames)
}

func genText(r *hutil.Rng) string {
	var sb strings.Builder
	sb.WriteString(hutil.Choice(r, pres))
	sb.WriteString(hutil.Choice(r, markers))
	n := r.Below(4)
	for i := 0; i < n; i++ {
		if i > 0 {
			sb.WriteString(",")
		}
		sb.WriteString(hutil.Choice(r, wss))
		sb.WriteString(genName(r))
		sb.WriteString(hutil.Choice(r, wss))
	}
	sb.WriteString(hutil.Choice(r, tails))
	return sb.String()
}

func genComments(r *hutil.Rng, allowDup bool) ([]Comment, []string) {
	n := 1 + r.Below(3)
	var cs []Comment
	var texts []string
	used := map[int]bool{}
	for i := 0; i < n; i++ {
		row := 1 + r.Below(6)
		if r.Below(40) == 0 {
			row = []int{99, 1000, 65535, 1000000, 4294967296, 123456789012}[r.Below(6)]
		}
		if used[row] && !(allowDup && r.Below(3) == 0) {
			continue
		}
		used[row] = true
		t := genText(r)
		cs = append(cs, mkComment(row, t))
		texts = append(texts, t)
	}
	return cs, texts
}

func genTitle(r *hutil.Rng, texts []string) string {
	switch r.Below(8) {
	case 0:
		return genName(r)
	case 1:
		n := hutil.Choice(r, ruleNames)
		return n[:1+r.Below(len(n))] // a prefix
	case 2:
		return hutil.Choice(r, ruleNames) + "x"
	default:
		return hutil.Choice(r, ruleNames)
	}
}

func parseDirMap(x any) map[string][]string {
	out := map[string][]string{}
	m, ok := x.(map[string]any)
	if !ok {
		return out
	}
	for k, v := range m {
		var names []string
		if arr, ok := v.([]any); ok {
			for _, e := range arr {
				s, _ := e.(string)
				names = append(names, s)
			}
		}
		out[k] = names
	}
	return out
}

type entry struct {
	Key   string  `json:"key"`
	Names [][]int `json:"names"`
}

func entriesOf(m map[string][]string) []entry {
	keys := make([]string, 0, len(m))
	for k := range m {
		keys = append(keys, k)
	}
	sort.Strings(keys)
	var es []entry
	for _, k := range keys {
		e := entry{Key: k}
		for _, n := range m[k] {
			e.Names = append(e.Names, bytesOf(n))
		}
		es = append(es, e)
	}
	return es
}

func helperCases(o *opa, r *hutil.Rng, out *hutil.Out, n int) {
	mkV := func(title string, row int) (map[string]any, Viol) {
		v := map[string]any{"title": title, "category": "c"}
		if row > 0 {
			v["location"] = map[string]any{"file": "p.rego", "row": row, "col": 1, "text": "x"}
		}
		return v, Viol{Cat: "c", Title: title, File: "p.rego", Row: row, Col: 1}
	}
	for i := 0; i < n; i++ {
		cs, texts := genComments(r, true)
		in := commentsInput(cs, texts)
		x, def, errc := o.eval(qDirs, in)
		rec := map[string]any{"kind": "dir", "comments": cs}
		switch {
		case errc == "conflict":
			rec["conflict"] = true
		case errc != "":
			rec["error"] = errc
		case !def:
			rec["entries"] = []entry{}
		default:
			rec["entries"] = entriesOf(parseDirMap(x))
		}
		out.Emit(rec)

		// _ignored on the same comments for a few violations
		for j := 0; j < 3; j++ {
			row := r.Below(9) // 0 = no location
			title := genTitle(r, texts)
			if r.Below(3) > 0 && len(cs) > 0 {
				// aim at one of the comments: a row next to it and one of the words after its marker
				k := r.Below(len(cs))
				row = max(cs[k].Row+r.Below(4)-1, 0)
				if i := strings.Index(texts[k], "regal ignore:"); i >= 0 {
					words := strings.Split(texts[k][i+13:], ",")
					w := strings.TrimSpace(hutil.Choice(r, words))
					if w != "" && r.Below(5) > 0 {
						title = w
					}
				}
			}
			vin, v := mkV(title, row)
			in["v"] = vin
			_, def, errc := o.eval(qIgnored, in)
			if errc != "" {
				continue // conflict: covered by the "dir" record
			}
			out.Emit(map[string]any{"kind": "ign", "comments": cs, "v": v, "title_bytes": bytesOf(title), "obs": def})
		}
		delete(in, "v")

		// what the Go side receives for this file (keys of lint.ignore_directives["p.rego"])
		if x, def, errc := o.eval(qCarry, in); errc == "" && def {
			if m, ok := x.(map[string]any); ok {
				keys := []string{}
				for k := range parseDirMap(m["p.rego"]) {
					keys = append(keys, k)
				}
				sort.Strings(keys)
				out.Emit(map[string]any{"kind": "carry", "comments": cs, "keys": keys})
			}
		}
	}
	// keys_to_numbers + _ignored on string-keyed objects
	for i := 0; i < n; i++ {
		obj := map[string]any{}
		var es []entry
		k := 1 + r.Below(3)
		for j := 0; j < k; j++ {
			var key string
			switch r.Below(8) {
			case 0:
				key = hutil.Choice(r, []string{"abc", "x1", "row", "1x"})
			case 1:
				key = strconv.Itoa([]int{10, 99, 100, 1000, 65536, 4294967296}[r.Below(6)])
			default:
				key = strconv.Itoa(1 + r.Below(9))
			}
			if _, dup := obj[key]; dup {
				continue
			}
			nn := 1 + r.Below(2)
			var names []any
			e := entry{Key: key}
			for t := 0; t < nn; t++ {
				nm := hutil.Choice(r, ruleNames)
				names = append(names, nm)
				e.Names = append(e.Names, bytesOf(nm))
			}
			obj[key] = names
			es = append(es, e)
		}
		row := r.Below(11)
		if r.Below(6) == 0 {
			row = []int{9, 10, 98, 99, 100, 999, 1000, 65535, 65536, 4294967295, 4294967296}[r.Below(11)]
		}
		title := hutil.Choice(r, ruleNames)
		vin, v := mkV(title, row)
		_, def, errc := o.eval(qKeys, map[string]any{"v": vin, "obj": obj})
		if errc != "" {
			out.Emit(map[string]any{"kind": "key", "error": errc, "obj": es, "v": v})
			continue
		}
		out.Emit(map[string]any{"kind": "key", "obj": es, "v": v, "obs": def})
	}
}

// ---------------------------------------------------------------- linting

const customReportRule = `# METADATA
# description: rule names must not start with foo
package custom.regal.rules.verif["no-foo-rule"]

import data.regal.ast
import data.regal.result

report contains violation if {
	some rule in input.rules
	startswith(ast.ref_to_string(rule.head.ref), "foo")
	violation := result.fail(rego.metadata.chain(), result.location(rule.head))
}
`

// every rule name defined in more than one file is flagged at each definition
const customAggRule = `# METADATA
# description: rule name defined in several files
package custom.regal.rules.verif["dup-rule"]

import data.regal.ast
import data.regal.result

aggregate contains entry if {
	defs := [d |
		some rule in input.rules
		d := {"name": ast.ref_to_string(rule.head.ref), "location": result.location(rule.head).location}
	]
	entry := result.aggregate(rego.metadata.chain(), {"defs": defs})
}

aggregate_report contains violation if {
	some e1 in input.aggregate
	some d1 in e1.aggregate_data.defs
	some e2 in input.aggregate
	e2.aggregate_source.file != e1.aggregate_source.file
	some d2 in e2.aggregate_data.defs
	d2.name == d1.name
	violation := result.fail(rego.metadata.chain(), {"location": d1.location})
}
`

type env struct {
	rulesDir string
	mu       sync.Mutex
	collects map[string]collected
	inits    map[string]*initRun
	oneShots map[string]*oneShotRes
}

func setupEnv(wd string) *env {
	d := filepath.Join(wd, "rules", "custom", "regal", "rules", "verif")
	if err := os.MkdirAll(d, 0o755); err != nil {
		panic(err)
	}
	must(os.WriteFile(filepath.Join(d, "no_foo_rule.rego"), []byte(customReportRule), 0o644))
	must(os.WriteFile(filepath.Join(d, "dup_rule.rego"), []byte(customAggRule), 0o644))
	return &env{rulesDir: filepath.Join(wd, "rules"), collects: map[string]collected{}}
}

func must(err error) {
	if err != nil {
		panic(err)
	}
}

// rules whose verdict depends on line lengths / formatting / the number of lines / comments inside a rule body: not row-equivariant
// by definition (the Section hypothesis H_shift of insert_directive_effect excludes them)
var notEquivariant = []string{"opa-fmt", "line-length", "file-length", "rule-length", "one-liner-rule"}

var aggregateRules = []string{"unresolved-import", "circular-import", "prefer-package-imports", "impossible-not",
	"missing-metadata", "no-defined-entrypoint", "dup-rule"}

func (e *env) perFileLinter() linter.Linter {
	return linter.NewLinter().WithEnableAll(true).
		WithDisabledRules(append(append([]string{}, notEquivariant...), aggregateRules...)...).
		WithCustomRules([]string{e.rulesDir})
}

func (e *env) aggLinter() linter.Linter {
	return linter.NewLinter().WithDisableAll(true).WithEnabledRules(aggregateRules...).
		WithCustomRules([]string{e.rulesDir})
}

func violsOf(rep report.Report, rename func(string) string, aggOnly bool) []Viol {
	var vs []Viol
	for _, v := range rep.Violations {
		if aggOnly && !v.IsAggregate {
			continue
		}
		vs = append(vs, Viol{Cat: v.Category, Title: v.Title, File: rename(v.Location.File), Row: v.Location.Row, Col: v.Location.Column})
	}
	sortViols(vs)
	return vs
}

func sortViols(vs []Viol) {
	sort.Slice(vs, func(i, j int) bool {
		a, b := vs[i], vs[j]
		if a.File != b.File {
			return a.File < b.File
		}
		if a.Row != b.Row {
			return a.Row < b.Row
		}
		if a.Col != b.Col {
			return a.Col < b.Col
		}
		if a.Cat != b.Cat {
			return a.Cat < b.Cat
		}
		return a.Title < b.Title
	})
}

func violKey(v Viol) string {
	return fmt.Sprintf("%s|%s|%s|%d|%d", v.File, v.Cat, v.Title, v.Row, v.Col)
}

func sameViols(a, b []Viol) bool {
	if len(a) != len(b) {
		return false
	}
	x := map[string]int{}
	for _, v := range a {
		x[violKey(v)]++
	}
	for _, v := range b {
		x[violKey(v)]--
	}
	for _, n := range x {
		if n != 0 {
			return false
		}
	}
	return true
}

func defuse(s string) string { return strings.ReplaceAll(s, "regal ignore:", "regal ignorE:") }

func commentsOf(in rules.Input, name string) []Comment {
	var cs []Comment
	for _, c := range in.Modules[name].Comments {
		cs = append(cs, Comment{Row: c.Location.Row, Text: bytesOf(string(c.Text))})
	}
	return cs
}

// ---------------------------------------------------------------- module generator (per-file rules)

// each snippet is a block of lines; rows that are expected to carry violations are found by linting
var snippets = [][]string{
	{"x = 1"},
	{"fooBar := 2"},
	{"foo_x := 3"},
	{"allow if 1 == 1"},
	{"u if 1 == input.x"},
	{"v if {", "\tinput.a == 1", "\tprint(\"dbg\")", "}"},
	{"t if {", "\tsome i", "\tinput.a[i] == 1", "}"},
	{"w if {", "\tinput.q", "\tfooBaz := 1", "\tfooBaz == input.r", "}"},
	{"deny contains msg if {", "\tmsg := \"a\"", "\tnot input.x != input.y", "}"},
	{"f(a) := b if {", "\tb := a", "}"},
	{"g(_) := 1"},
	{"get_thing := input.thing"},
	{"k if input.x", "", "k if input.y"},
	{"m := {\"a\": 1} if {", "\tinput.m", "}"},
	{"n if {", "\tx := input.n", "\tx == 1", "\ty = 2", "\ty == input.z", "}"},
	{"o := [z | z := input.o[_]]"},
	{"default q := false"},
	{"s if {", "\tinput.s == true", "}"},
	{"tl := input.foo[_]"},
	{"default dflt = false"},
	{"tn if {", "\ttime.now_ns() > 0", "\ttime.now_ns() < 5", "}"},
	{"rx := regex.match(\"a.b\", input.s)"},
	{"sp := sprintf(\"%s\", [1, 2])"},
	{"import data.late.imp"},
	{"wo if {", "\tinput.x with input as {}", "}"},
	{"io if \"x\" == input.arr[_]"},
	{"sc if count(indexof_n(\"a\", \"b\")) > 0"},
	{"ex(x) if x == input.y"},
	{"ne if {", "\tsome x in input.xs", "\tx != \"a\"", "\tx != \"b\"", "}"},
	{"el := 1 if {", "\tinput.a", "} else := 2"},
	{"ca if {", "\tinput.p", "} {", "\tinput.q", "}"},
	{"eq if input.e == true"},
	{"wk if {", "\twalk(input, [p, v])", "\tv == 1", "\tcount(p) > 0", "}"},
	{"ob if {", "\tk := object.keys(input.o)", "\tcount(k) == 0", "}"},
	{"un if {", "\tsome y", "\ty := input.u", "\ty == 1", "}"},
}

// validSnippets drops snippets that do not parse as part of a module (reported on stderr, never silently)
func validSnippets() [][]string {
	var ok [][]string
	for _, sn := range snippets {
		text := "package t\n\n" + strings.Join(sn, "\n") + "\n"
		if _, err := rules.InputFromText("t.rego", text); err != nil {
			fmt.Fprintf(os.Stderr, "c06: snippet dropped (does not parse): %q: %v\n", sn[0], err)
			continue
		}
		ok = append(ok, sn)
	}
	return ok
}

type module struct {
	Name  string
	Lines []string
	// rows (1-based) of directive comment lines the generator wrote itself
	OwnDirRows map[int]bool
}

func (m *module) text() string { return strings.Join(m.Lines, "\n") + "\n" }

func genModule(r *hutil.Rng, idx int) *module {
	m := &module{Name: fmt.Sprintf("m%d.rego", idx), OwnDirRows: map[int]bool{}}
	add := func(l string) { m.Lines = append(m.Lines, l) }
	add(fmt.Sprintf("package m%d", idx))
	add("")
	if r.Below(2) == 0 {
		add("import data.lib.util")
		add("")
	}
	n := 4 + r.Below(4)
	perm := make([]int, len(snippets))
	for i := range perm {
		perm[i] = i
	}
	hutil.Shuffle(r, perm)
	for i := 0; i < n; i++ {
		sn := snippets[perm[i]]
		if r.Below(7) == 0 {
			add("# plain comment")
		}
		for j, l := range sn {
			if j == 0 && r.Below(9) == 0 {
				l += " # note"
			}
			add(l)
		}
		add("")
		if r.Below(5) == 0 {
			add("")
		}
	}
	return m
}

// addOwnDirectives writes a few directives of the generator's own into the module, aimed at violations found
// by a first lint: above the line, at its end, or naming a rule that does not fire there
func addOwnDirectives(r *hutil.Rng, m *module, found []Viol) {
	type ins struct {
		row  int
		text string
		same bool
	}
	var todo []ins
	used := map[int]bool{}
	hutil.Shuffle(r, found)
	for _, v := range found {
		if len(todo) >= 2 || v.Row < 2 || used[v.Row] {
			continue
		}
		used[v.Row] = true
		name := v.Title
		switch r.Below(4) {
		case 0:
			name = "todo-comment, " + v.Title
		case 1:
			name = "prefer-snake-case"
		}
		todo = append(todo, ins{v.Row, "# regal ignore:" + name, r.Below(3) == 0})
	}
	sort.Slice(todo, func(i, j int) bool { return todo[i].row > todo[j].row })
	for _, t := range todo {
		if t.same {
			if !strings.Contains(m.Lines[t.row-1], "#") {
				m.Lines[t.row-1] += " " + t.text
			}
			continue
		}
		ls := append([]string{}, m.Lines[:t.row-1]...)
		ls = append(ls, indentOf(m.Lines[t.row-1])+t.text)
		m.Lines = append(ls, m.Lines[t.row-1:]...)
	}
	m.OwnDirRows = ownDirRows(m.Lines)
}

// ---------------------------------------------------------------- directive spellings and placements

type spelling struct {
	Name  string   // one | list | other | prefix
	Text  string   // comment text without '#'
	Names []string // what the generator means the directive to name
}

func spellings(r *hutil.Rng, title string, otherTitles []string) []spelling {
	other := "some-other-rule"
	if len(otherTitles) > 0 && r.Below(2) == 0 {
		other = hutil.Choice(r, otherTitles)
	}
	prefix := title[:len(title)-1]
	ws := func() string { return hutil.Choice(r, []string{"", " ", "  ", "\t"}) }
	filler := hutil.Choice(r, []string{"line-length", "some-other-rule", "x"})
	list := []string{filler, title}
	if r.Below(2) == 0 {
		list = []string{title, filler}
	}
	if r.Below(3) == 0 {
		list = append(list, "todo-comment")
	}
	var sb strings.Builder
	for i, n := range list {
		if i > 0 {
			sb.WriteString(",")
		}
		sb.WriteString(ws() + n + ws())
	}
	return []spelling{
		{"one", " regal ignore:" + title, []string{title}},
		{"list", " regal ignore:" + sb.String(), list},
		{"other", " regal ignore:" + other, []string{other}},
		{"prefix", " regal ignore:" + prefix, []string{prefix}},
	}
}

var placements = []string{"above", "same", "two-above", "below"}

// editRow: the row at which a line is inserted (or to which the comment is appended)
func editRow(place string, r int) int {
	switch place {
	case "above", "same":
		return r
	case "two-above":
		return r - 1
	default:
		return r + 1
	}
}

func indentOf(l string) string {
	i := 0
	for i < len(l) && (l[i] == ' ' || l[i] == '\t') {
		i++
	}
	return l[:i]
}

// applyEdit returns the edited lines; ok=false when the placement does not exist (row out of range)
func applyEdit(lines []string, place string, row int, text string) ([]string, bool) {
	q := editRow(place, row)
	if place == "same" {
		if row < 1 || row > len(lines) {
			return nil, false
		}
		out := append([]string{}, lines...)
		out[row-1] = out[row-1] + " #" + text
		return out, true
	}
	if q < 2 || q > len(lines)+1 { // never above the package clause's row 1 (keeps `package` first is not required, but row 0 does not exist)
		return nil, false
	}
	ind := ""
	if q-1 < len(lines) {
		ind = indentOf(lines[q-1])
	}
	out := append([]string{}, lines[:q-1]...)
	out = append(out, ind+"#"+text)
	out = append(out, lines[q-1:]...)
	return out, true
}

func shiftViols(vs []Viol, file string, q int) []Viol {
	out := make([]Viol, len(vs))
	for i, v := range vs {
		if v.File == file && v.Row != 0 && v.Row >= q {
			v.Row++
		}
		out[i] = v
	}
	sortViols(out)
	return out
}

func contains(xs []string, s string) bool {
	for _, x := range xs {
		if x == s {
			return true
		}
	}
	return false
}

// expectedAfter: the property's prediction from the before-report and the names the generator wrote
func expectedAfter(before []Viol, file, place string, row int, names []string) []Viol {
	q := editRow(place, row)
	var kept []Viol
	for _, v := range before {
		covered := false
		if v.File == file && v.Row != 0 && contains(names, v.Title) {
			if place == "same" {
				covered = v.Row == row || v.Row == row+1
			} else {
				covered = v.Row == q
			}
		}
		if !covered {
			kept = append(kept, v)
		}
	}
	if place == "same" {
		sortViols(kept)
		return kept
	}
	return shiftViols(kept, file, q)
}

// ---------------------------------------------------------------- e2e for per-file rules (batched lint)

type E2E struct {
	Kind      string    `json:"kind"` // "e2e"
	Module    string    `json:"module"`
	Text      string    `json:"text"`
	Target    Viol      `json:"target"`
	Place     string    `json:"place"`
	Spell     string    `json:"spell"`
	Dir       string    `json:"dir"`
	Names     []string  `json:"names"`
	Comments  []Comment `json:"comments"`
	Raw       []Viol    `json:"raw"`
	Before    []Viol    `json:"before"`
	CommentsA []Comment `json:"comments_after"`
	After     []Viol    `json:"after"`
	RawAfter  []Viol    `json:"raw_after"`
	TextAfter string    `json:"text_after"`
	HShift    bool      `json:"h_shift"`   // raw_after == shift(raw): the hypothesis of the theorem, observed
	OwnAbove  bool      `json:"own_above"` // a directive of the module sits right above the inserted line (or the line already has a comment)
	PredOK    bool      `json:"pred_ok"`
	Skip      string    `json:"skip,omitempty"`
}

func batchLint(l linter.Linter, files map[string]string) (map[string][]Viol, rules.Input, error) {
	in, err := rules.InputFromMap(files, nil)
	if err != nil {
		return nil, in, err
	}
	rep, err := l.WithInputModules(&in).Lint(context.Background())
	if err != nil {
		return nil, in, err
	}
	out := map[string][]Viol{}
	for _, v := range rep.Violations {
		if v.IsAggregate {
			continue
		}
		f := v.Location.File
		out[f] = append(out[f], Viol{Cat: v.Category, Title: v.Title, File: "m.rego", Row: v.Location.Row, Col: v.Location.Column})
	}
	for f := range out {
		sortViols(out[f])
	}
	return out, in, nil
}

func e2ePerFile(e *env, r *hutil.Rng, out *hutil.Out, mods []*module, maxTargets int) {
	// round 0: find out what fires where, then let the generator place directives of its own
	files0 := map[string]string{}
	for _, m := range mods {
		files0[m.Name] = m.text()
	}
	res0, _, err := batchLint(e.perFileLinter(), files0)
	if err != nil {
		panic(fmt.Sprintf("round 0 lint failed: %v", err))
	}
	for i, m := range mods {
		if i%3 != 2 { // every third module stays free of directives
			addOwnDirectives(r, m, res0[m.Name])
		}
	}
	// round 1: every module and its defused twin
	files := map[string]string{}
	for _, m := range mods {
		files[m.Name] = m.text()
		files["d_"+m.Name] = defuse(m.text())
	}
	res, in, err := batchLint(e.perFileLinter(), files)
	if err != nil {
		panic(fmt.Sprintf("base lint failed: %v", err))
	}
	type pending struct {
		c    *E2E
		name string
	}
	var pend []pending
	files2 := map[string]string{}
	for _, m := range mods {
		before, raw := res[m.Name], res["d_"+m.Name]
		comments := commentsOf(in, m.Name)
		// targets: distinct (row, title) among the *raw* violations (so that already-ignored ones are targeted too)
		seen := map[string]bool{}
		var targets []Viol
		for _, v := range raw {
			k := fmt.Sprintf("%d|%s", v.Row, v.Title)
			if v.Row == 0 || seen[k] {
				continue
			}
			seen[k] = true
			targets = append(targets, v)
		}
		hutil.Shuffle(r, targets)
		targets = spreadByTitle(targets)
		sort.SliceStable(targets, func(i, j int) bool { // a custom-rule violation first, when there is one
			return targets[i].Title == "no-foo-rule" && targets[j].Title != "no-foo-rule"
		})
		if len(targets) > maxTargets {
			targets = targets[:maxTargets]
		}
		var titles []string
		for _, v := range raw {
			if !contains(titles, v.Title) {
				titles = append(titles, v.Title)
			}
		}
		for ti, tv := range targets {
			var others []string
			for _, t := range titles {
				if t != tv.Title && !strings.HasPrefix(tv.Title, t) {
					others = append(others, t)
				}
			}
			for _, sp := range spellings(r, tv.Title, others) {
				for _, pl := range placements {
					c := &E2E{Kind: "e2e", Module: m.Name, Text: m.text(), Target: tv, Place: pl, Spell: sp.Name, Dir: sp.Text,
						Names: sp.Names, Comments: comments, Raw: raw, Before: before}
					lines, ok := applyEdit(m.Lines, pl, tv.Row, sp.Text)
					if !ok {
						c.Skip = "placement-out-of-range"
						out.Emit(c)
						continue
					}
					c.TextAfter = strings.Join(lines, "\n") + "\n"
					q := editRow(pl, tv.Row)
					c.OwnAbove = (pl != "same" && m.OwnDirRows[q-1]) ||
						(pl == "same" && strings.Contains(m.Lines[tv.Row-1], "#")) // the line already ends in a comment
					name := fmt.Sprintf("e%d_%s_%s_%s", ti, sp.Name, pl, m.Name)
					files2[name] = c.TextAfter
					files2["d_"+name] = defuse(c.TextAfter)
					pend = append(pend, pending{c, name})
				}
			}
		}
	}
	// round 2: all edited variants (and their defused twins) in chunks, one Lint call per chunk
	names := make([]string, 0, len(pend))
	for _, p := range pend {
		names = append(names, p.name)
	}
	const chunk = 160
	type chunkRes struct {
		res map[string][]Viol
		in  rules.Input
		err map[string]string
	}
	results := make([]chunkRes, (len(names)+chunk-1)/chunk)
	var wg sync.WaitGroup
	sem := make(chan struct{}, 3)
	for ci := range results {
		wg.Add(1)
		go func(ci int) {
			defer wg.Done()
			sem <- struct{}{}
			defer func() { <-sem }()
			lo, hi := ci*chunk, min((ci+1)*chunk, len(names))
			fs := map[string]string{}
			bad := map[string]string{}
			for _, n := range names[lo:hi] {
				// files that do not parse any more are left out (counted as skipped)
				if _, err := rules.InputFromText(n, files2[n]); err != nil {
					bad[n] = err.Error()
					continue
				}
				fs[n] = files2[n]
				fs["d_"+n] = files2["d_"+n]
			}
			rs, in, err := batchLint(e.perFileLinter(), fs)
			if err != nil {
				panic(fmt.Sprintf("chunk lint failed: %v", err))
			}
			results[ci] = chunkRes{rs, in, bad}
		}(ci)
	}
	wg.Wait()
	for i, p := range pend {
		cr := results[i/chunk]
		c := p.c
		if msg, bad := cr.err[p.name]; bad {
			c.Skip = "edited module does not parse: " + msg
			out.Emit(c)
			continue
		}
		c.After = cr.res[p.name]
		c.RawAfter = cr.res["d_"+p.name]
		c.CommentsA = commentsOf(cr.in, p.name)
		q := editRow(c.Place, c.Target.Row)
		if c.Place == "same" {
			c.HShift = sameViols(c.RawAfter, c.Raw)
		} else {
			c.HShift = sameViols(c.RawAfter, shiftViols(c.Raw, "m.rego", q))
		}
		// the predicate of the property, from the before-report
		exp := expectedAfter(c.Before, "m.rego", c.Place, c.Target.Row, c.Names)
		c.PredOK = sameViols(exp, c.After)
		out.Emit(c)
	}
}

// ---------------------------------------------------------------- aggregate rules

type workspace struct {
	Name  string
	Files map[string][]string // name -> lines
}

func fixedWorkspaces() []workspace {
	return []workspace{
		{"ws1", map[string][]string{
			"a.rego": {"package a", "", "import data.b.x", "import data.nope.y", "import data.c", "", "dup_rule := 1", "",
				"r if not data.b.multi", "", "s if {", "\tnot data.b.multi", "\tx", "}"},
			"b.rego": {"package b", "", "x := 1", "", "multi contains 1", "", "dup_rule := 2"},
			"c.rego": {"package c", "", "import data.a", "", "z := a.dup_rule", "", "import data.nope.y"},
		}},
		{"ws2", map[string][]string{
			"p/one.rego": {"package p.one", "", "import data.p.two.helper", "import data.missing", "", "# METADATA", "# title: annotated", "ok := 1", "",
				"shared := 2"},
			"p/two.rego": {"# METADATA", "# title: pkg two", "package p.two", "", "import data.p.one", "", "helper := one.ok", "", "shared := 3",
				"", "multi contains \"x\""},
			"q.rego": {"package q", "", "import data.p.two", "", "t if not two.multi", "", "shared := 4"},
		}},
	}
}

func genWorkspace(r *hutil.Rng, idx int) workspace {
	pk := []string{"wa", "wb", "wc"}
	n := 2 + r.Below(2)
	w := workspace{Name: fmt.Sprintf("gen%d", idx), Files: map[string][]string{}}
	for i := 0; i < n; i++ {
		var ls []string
		ls = append(ls, "package "+pk[i], "")
		for j := 0; j < n; j++ {
			if j != i && r.Below(2) == 0 {
				ls = append(ls, "import data."+pk[j])
			}
		}
		if r.Below(2) == 0 {
			ls = append(ls, "import data."+pk[(i+1)%n]+".val")
		}
		if r.Below(2) == 0 {
			ls = append(ls, "import data.unknown"+strconv.Itoa(r.Below(2)))
		}
		ls = append(ls, "")
		if r.Below(3) == 0 {
			ls = append(ls, "# regal ignore:dup-rule")
		}
		ls = append(ls, "val := "+strconv.Itoa(i), "")
		if r.Below(2) == 0 {
			ls = append(ls, "set contains "+strconv.Itoa(i), "")
		}
		if r.Below(2) == 0 {
			ls = append(ls, "neg if not data."+pk[(i+1)%n]+".set", "")
		}
		w.Files[pk[i]+".rego"] = ls
	}
	return w
}

func wsTexts(w map[string][]string) map[string]string {
	out := map[string]string{}
	for n, ls := range w {
		out[n] = strings.Join(ls, "\n") + "\n"
	}
	return out
}

func defuseAll(fs map[string]string) map[string]string {
	out := map[string]string{}
	for n, t := range fs {
		out[n] = defuse(t)
	}
	return out
}

type AggCase struct {
	Kind      string               `json:"kind"` // "agg"
	WS        string               `json:"ws"`
	Files     map[string]string    `json:"files"`
	Mode      string               `json:"mode"` // oneshot | twophase-nodirs | twophase-dirs | mixed
	Target    *Viol                `json:"target,omitempty"`
	Place     string               `json:"place,omitempty"`
	Spell     string               `json:"spell,omitempty"`
	Dir       string               `json:"dir,omitempty"`
	Names     []string             `json:"names,omitempty"`
	Comments  map[string][]Comment `json:"comments"`
	Given     map[string][]Comment `json:"given_comments,omitempty"` // mixed mode: comments of the files whose directives were provided
	Base      map[string]string    `json:"base,omitempty"`           // mixed mode: the unedited files
	Raw       []Viol               `json:"raw"`                      // aggregate violations of the defused workspace (same mode)
	Obs       []Viol               `json:"obs"`
	Before    []Viol               `json:"before,omitempty"`     // one-shot aggregate violations before the edit
	RawBase   []Viol               `json:"raw_before,omitempty"` // ... of the defused workspace before the edit
	HShift    bool                 `json:"h_shift"`
	PredOK    bool                 `json:"pred_ok"`
	OwnAbove  bool                 `json:"own_above"`
	RawShared bool                 `json:"raw_shared"` // quick tier: raw taken from the run of another spelling at the same place
	Skip      string               `json:"skip,omitempty"`
	Err       string               `json:"err,omitempty"`
}

func (e *env) oneShot(files map[string]string) ([]Viol, rules.Input, error) {
	in, err := rules.InputFromMap(files, nil)
	if err != nil {
		return nil, in, err
	}
	rep, err := e.aggLinter().WithInputModules(&in).Lint(context.Background())
	if err != nil {
		return nil, in, err
	}
	return violsOf(rep, func(s string) string { return s }, true), in, nil
}

type collected struct {
	aggs map[string][]report.Aggregate
	dirs map[string]map[string][]string
	err  error
}

// collect: one file linted on its own with the collect query, aggregates (and directives) exported.
// Memoised by name and content: an edit of one file re-collects only that file, as an incremental client does.
func (e *env) collect(name, text string) collected {
	key := name + "\x00" + text
	e.mu.Lock()
	c, ok := e.collects[key]
	e.mu.Unlock()
	if ok {
		return c
	}
	in, err := rules.InputFromMap(map[string]string{name: text}, nil)
	if err == nil {
		var rep report.Report
		rep, err = e.aggLinter().WithCollectQuery(true).WithExportAggregates(true).WithInputModules(&in).Lint(context.Background())
		c = collected{aggs: rep.Aggregates, dirs: rep.IgnoreDirectives}
	}
	c.err = err
	e.mu.Lock()
	e.collects[key] = c
	e.mu.Unlock()
	return c
}

// twoPhase: collect every file on its own, merge, report. withDirs: hand the exported directives on.
func (e *env) twoPhase(files map[string]string, withDirs bool) ([]Viol, error) {
	merged := map[string][]report.Aggregate{}
	dirs := map[string]map[string][]string{}
	names := make([]string, 0, len(files))
	for n := range files {
		names = append(names, n)
	}
	sort.Strings(names)
	for _, n := range names {
		c := e.collect(n, files[n])
		if c.err != nil {
			return nil, c.err
		}
		for k, a := range c.aggs {
			merged[k] = append(merged[k], a...)
		}
		for f, d := range c.dirs {
			dirs[f] = d
		}
	}
	l := e.aggLinter().WithAggregates(merged)
	if withDirs {
		l = l.WithIgnoreDirectives(dirs)
	}
	rep, err := l.Lint(context.Background())
	if err != nil {
		return nil, err
	}
	return violsOf(rep, func(s string) string { return s }, true), nil
}

// spreadByTitle reorders so that the first k targets cover as many different rules as possible
func spreadByTitle(ts []Viol) []Viol {
	var out, rest []Viol
	seen := map[string]bool{}
	for _, t := range ts {
		if seen[t.Title] {
			rest = append(rest, t)
		} else {
			seen[t.Title] = true
			out = append(out, t)
		}
	}
	return append(out, rest...)
}

// mixed: the aggregates and directives collected from the (unedited) files are provided, and one (edited) file is
// linted in the same run; its own fresh directives must win over the provided ones for that file
func (e *env) mixed(base map[string]string, name, edited string) ([]Viol, rules.Input, error) {
	merged := map[string][]report.Aggregate{}
	dirs := map[string]map[string][]string{}
	names := make([]string, 0, len(base))
	for n := range base {
		names = append(names, n)
	}
	sort.Strings(names)
	for _, n := range names {
		c := e.collect(n, base[n])
		if c.err != nil {
			return nil, rules.Input{}, c.err
		}
		for k, a := range c.aggs {
			merged[k] = append(merged[k], a...)
		}
		for f, d := range c.dirs {
			dirs[f] = d
		}
	}
	in, err := rules.InputFromMap(map[string]string{name: edited}, nil)
	if err != nil {
		return nil, in, err
	}
	rep, err := e.aggLinter().WithInputModules(&in).WithAggregates(merged).WithIgnoreDirectives(dirs).Lint(context.Background())
	if err != nil {
		return nil, in, err
	}
	return violsOf(rep, func(s string) string { return s }, true), in, nil
}

func allComments(in rules.Input) map[string][]Comment {
	out := map[string][]Comment{}
	for _, n := range in.FileNames {
		out[n] = commentsOf(in, n)
		if out[n] == nil {
			out[n] = []Comment{}
		}
	}
	return out
}

func ownDirRows(lines []string) map[int]bool {
	out := map[int]bool{}
	for i, l := range lines {
		if strings.Contains(l, "regal ignore:") {
			out[i+1] = true
		}
	}
	return out
}

// nameStyles: the ways a caller may spell the name of the same module when it hands it over via WithInputModules:
// relative with a leading "./", with a "dir/.." segment, absolute, and as the file:// URI the language server uses.
// The plain relative spelling is what the workspaces themselves use.
var nameStyles = []struct {
	Name string
	Fn   func(string) string
}{
	{"dot-slash", func(n string) string { return "./" + n }},
	{"parent-segment", func(n string) string { return "pol/../" + n }},
	{"absolute", func(n string) string { return "/ws/" + n }},
	{"file-uri", func(n string) string { return "file:///ws/" + n }},
}

// respelled: the same workspaces with every file named in one style, plus one workspace per input in which every
// file is named in a different style (rotating, starting with the plain one)
func respelled(wss []workspace) []workspace {
	var out []workspace
	for _, w := range wss {
		names := make([]string, 0, len(w.Files))
		for n := range w.Files {
			names = append(names, n)
		}
		sort.Strings(names)
		for _, st := range nameStyles {
			nw := workspace{Name: w.Name + "@" + st.Name, Files: map[string][]string{}}
			for _, n := range names {
				nw.Files[st.Fn(n)] = w.Files[n]
			}
			out = append(out, nw)
		}
		nw := workspace{Name: w.Name + "@rotating", Files: map[string][]string{}}
		for i, n := range names {
			if i%(len(nameStyles)+1) == 0 {
				nw.Files[n] = w.Files[n]
			} else {
				nw.Files[nameStyles[(i-1)%(len(nameStyles)+1)].Fn(n)] = w.Files[n]
			}
		}
		out = append(out, nw)
	}
	return out
}

func e2eAggregate(e *env, r *hutil.Rng, out *hutil.Out, wss []workspace, maxTargets int, shareRaw bool, onlyOne bool) {
	type job struct {
		c      *AggCase
		files  map[string]string
		rawKey string // jobs with the same key differ only in the words after the (defused) marker
	}
	type rawRes struct {
		once sync.Once
		vs   []Viol
		err  error
	}
	var rawMu sync.Mutex
	raws := map[string]*rawRes{}
	rawOf := func(key string, files map[string]string) ([]Viol, error) {
		rawMu.Lock()
		rr, ok := raws[key]
		if !ok {
			rr = &rawRes{}
			raws[key] = rr
		}
		rawMu.Unlock()
		rr.once.Do(func() { rr.vs, _, rr.err = e.oneShot(defuseAll(files)) })
		return rr.vs, rr.err
	}
	var jobs []job
	for _, w := range wss {
		texts := wsTexts(w.Files)
		before, in, err := e.oneShot(texts)
		if err != nil {
			panic(fmt.Sprintf("workspace %s: %v", w.Name, err))
		}
		rawBefore, _, err := e.oneShot(defuseAll(texts))
		if err != nil {
			panic(err)
		}
		comments := allComments(in)
		// the unedited workspace in the three modes
		for _, mode := range []string{"oneshot", "twophase-nodirs", "twophase-dirs"} {
			jobs = append(jobs, job{&AggCase{Kind: "agg", WS: w.Name, Files: texts, Mode: mode, Comments: comments}, texts, w.Name})
		}
		seen := map[string]bool{}
		var targets []Viol
		for _, v := range rawBefore {
			k := violKey(Viol{File: v.File, Row: v.Row, Title: v.Title})
			if v.Row == 0 || seen[k] {
				continue
			}
			seen[k] = true
			targets = append(targets, v)
		}
		hutil.Shuffle(r, targets)
		targets = spreadByTitle(targets)
		if len(targets) > maxTargets {
			targets = targets[:maxTargets]
		}
		var titles []string
		for _, v := range rawBefore {
			if !contains(titles, v.Title) {
				titles = append(titles, v.Title)
			}
		}
		for _, tv := range targets {
			tv := tv
			var others []string
			for _, t := range titles {
				if t != tv.Title {
					others = append(others, t)
				}
			}
			for _, sp := range spellings(r, tv.Title, others) {
				if onlyOne && sp.Name != "one" {
					continue
				}
				for _, pl := range placements {
					modes := []string{"oneshot"}
					if sp.Name == "one" && (pl == "above" || pl == "same") {
						modes = append(modes, "twophase-nodirs", "twophase-dirs")
					}
					if sp.Name == "one" && pl == "same" {
						modes = append(modes, "mixed")
					}
					lines, ok := applyEdit(w.Files[tv.File], pl, tv.Row, sp.Text)
					for _, mode := range modes {
						c := &AggCase{Kind: "agg", WS: w.Name, Mode: mode, Target: &tv, Place: pl, Spell: sp.Name, Dir: sp.Text,
							Names: sp.Names, Before: before, RawBase: rawBefore}
						if !ok {
							c.Skip = "placement-out-of-range"
							c.Files = texts
							if mode == "oneshot" {
								out.Emit(c)
							}
							continue
						}
						fs := map[string]string{}
						for n, t := range texts {
							fs[n] = t
						}
						fs[tv.File] = strings.Join(lines, "\n") + "\n"
						c.Files = fs
						if mode == "mixed" {
							c.Base, c.Given = texts, comments
						}
						c.OwnAbove = (pl != "same" && ownDirRows(w.Files[tv.File])[editRow(pl, tv.Row)-1]) ||
							(pl == "same" && strings.Contains(w.Files[tv.File][tv.Row-1], "#"))
						key := fmt.Sprintf("%s|%s|%d|%s", w.Name, tv.File, tv.Row, pl)
						if !shareRaw {
							key += "|" + sp.Name
						}
						c.RawShared = shareRaw
						jobs = append(jobs, job{c, fs, key})
					}
				}
			}
		}
	}
	var wg sync.WaitGroup
	sem := make(chan struct{}, runtime.NumCPU())
	for _, j := range jobs {
		wg.Add(1)
		go func(j job) {
			defer wg.Done()
			sem <- struct{}{}
			defer func() { <-sem }()
			c := j.c
			if _, err := rules.InputFromMap(j.files, nil); err != nil {
				c.Skip = "edited module does not parse: " + err.Error()
				return
			}
			var err error
			var in rules.Input
			switch c.Mode {
			case "oneshot":
				c.Obs, in, err = e.oneShot(j.files)
			case "mixed":
				c.Obs, in, err = e.mixed(c.Base, c.Target.File, j.files[c.Target.File])
			default:
				in, err = rules.InputFromMap(j.files, nil)
				if err == nil {
					c.Obs, err = e.twoPhase(j.files, c.Mode == "twophase-dirs")
				}
			}
			if err == nil {
				// the raw aggregate violations: one-shot run of the workspace with every marker defused
				c.Raw, err = rawOf(j.rawKey, j.files)
			}
			if err != nil {
				c.Err = err.Error()
				return
			}
			c.Comments = allComments(in)
			if c.Target != nil {
				q := editRow(c.Place, c.Target.Row)
				if c.Place == "same" {
					c.HShift = sameViols(c.Raw, c.RawBase)
					c.PredOK = sameViols(expectedAfter(c.Before, c.Target.File, c.Place, c.Target.Row, c.Names), c.Obs)
				} else {
					c.HShift = sameViols(c.Raw, shiftViols(c.RawBase, c.Target.File, q))
					c.PredOK = sameViols(expectedAfter(c.Before, c.Target.File, c.Place, c.Target.Row, c.Names), c.Obs)
				}
			}
		}(j)
	}
	wg.Wait()
	for _, j := range jobs {
		if j.c.Obs == nil {
			j.c.Obs = []Viol{}
		}
		if j.c.Raw == nil {
			j.c.Raw = []Viol{}
		}
		out.Emit(j.c)
	}
}

// ---------------------------------------------------------------- histories: directives handed from run to run

// A client of the public API keeps the aggregates every file exported when it was linted on its own, and ONE map of
// ignore directives that it updates from the Report.IgnoreDirectives of every run (dirs[file] = directives).
// A history replaces one file at a time by another version of itself; the versions of a target file differ in
// their directives: none at all / naming the rule of an aggregate violation in the file (same line or line above)
// / naming another rule / naming the rule on another row.  After every step two observations:
//   report : a report-only run WithAggregates(merged per-file exports).WithIgnoreDirectives(the client's map)
//   mixed  : the replaced file is linted by the reporting run itself, which is handed the map as it was BEFORE
//            this replacement (stale for that file) -- the run's own directives must win, also when there are none
// Both must equal a fresh one-shot run over the current contents.

type HistStep struct {
	File     string    `json:"file"`
	VKind    string    `json:"vkind"` // none | rule-same | rule-above | rule-list | other | other-row | base
	Text     string    `json:"text"`
	Comments []Comment `json:"comments"`
}

type HistCase struct {
	Kind         string                         `json:"kind"` // "hist"
	WS           string                         `json:"ws"`
	H            int                            `json:"h"`
	Step         int                            `json:"step"`
	Mixed        bool                           `json:"mixed"`
	Target       *Viol                          `json:"target,omitempty"`
	Init         map[string]string              `json:"init"`
	InitComments map[string][]Comment           `json:"init_comments"`
	Edits        []HistStep                     `json:"edits"` // the history up to and including the observed step
	Files        map[string]string              `json:"files"` // contents after the history
	Export       map[string]map[string][]string `json:"export"` // Report.IgnoreDirectives of the last run that linted files
	Raw          []Viol                         `json:"raw"`
	Obs          []Viol                         `json:"obs"`
	Fresh        []Viol                         `json:"fresh"`
	PredOK       bool                           `json:"pred_ok"`
	Err          string                         `json:"err,omitempty"`
}

// stripDirectives removes every ignore directive: a comment line becomes a plain comment (rows are kept), a
// trailing directive comment is cut off
func stripDirectives(lines []string) []string {
	out := make([]string, len(lines))
	for i, l := range lines {
		out[i] = l
		idx := strings.Index(l, "regal ignore:")
		if idx < 0 {
			continue
		}
		h := strings.LastIndex(l[:idx], "#")
		if h < 0 {
			continue
		}
		if strings.TrimSpace(l[:h]) == "" {
			out[i] = l[:h] + "# plain comment"
		} else {
			out[i] = strings.TrimRight(l[:h], " \t")
		}
	}
	return out
}

func joinLines(ls []string) string { return strings.Join(ls, "\n") + "\n" }

// versionOf builds one version of a file from its directive-free lines; ok=false when the version does not exist
func versionOf(stripped []string, kind string, row int, title, other string) (string, bool) {
	ls := append([]string{}, stripped...)
	switch kind {
	case "none":
		return joinLines(ls), true
	case "rule-same":
		ls[row-1] += " # regal ignore:" + title
	case "rule-list":
		ls[row-1] += " # regal ignore: " + other + " ,\t" + title
	case "other":
		ls[row-1] += " # regal ignore:" + other
	case "rule-above":
		if row < 2 {
			return "", false
		}
		ls = append(append(append([]string{}, ls[:row-1]...), indentOf(ls[row-1])+"# regal ignore:"+title), ls[row-1:]...)
	case "other-row":
		// a row that neither is the target row nor directly above it, without a comment of its own
		u := 0
		for i := range ls {
			if i+1 != row && i+2 != row && !strings.Contains(ls[i], "#") && strings.TrimSpace(ls[i]) != "" {
				u = i + 1
				break
			}
		}
		if u == 0 {
			return "", false
		}
		ls[u-1] += " # regal ignore:" + title
	default:
		return "", false
	}
	return joinLines(ls), true
}

func parseComments(name, text string) ([]Comment, error) {
	in, err := rules.InputFromMap(map[string]string{name: text}, nil)
	if err != nil {
		return nil, err
	}
	cs := commentsOf(in, name)
	if cs == nil {
		cs = []Comment{}
	}
	return cs, nil
}

type initRun struct {
	once sync.Once
	dirs map[string]map[string][]string
	err  error
}

// initDirs: the first run of the client, one Lint over all files with export
func (e *env) initDirs(files map[string]string) (map[string]map[string][]string, error) {
	key := filesKey(files)
	e.mu.Lock()
	if e.inits == nil {
		e.inits = map[string]*initRun{}
	}
	ir, ok := e.inits[key]
	if !ok {
		ir = &initRun{}
		e.inits[key] = ir
	}
	e.mu.Unlock()
	ir.once.Do(func() {
		in, err := rules.InputFromMap(files, nil)
		if err != nil {
			ir.err = err
			return
		}
		rep, err := e.aggLinter().WithExportAggregates(true).WithInputModules(&in).Lint(context.Background())
		ir.dirs, ir.err = rep.IgnoreDirectives, err
	})
	return ir.dirs, ir.err
}

type oneShotRes struct {
	once sync.Once
	vs   []Viol
	err  error
}

func filesKey(files map[string]string) string {
	names := make([]string, 0, len(files))
	for n := range files {
		names = append(names, n)
	}
	sort.Strings(names)
	var sb strings.Builder
	for _, n := range names {
		sb.WriteString(n + "\x00" + files[n] + "\x01")
	}
	return sb.String()
}

// oneShotMemo: the aggregate violations of one Lint over the files (the same contents are reached by several cases)
func (e *env) oneShotMemo(files map[string]string) ([]Viol, error) {
	k := filesKey(files)
	e.mu.Lock()
	if e.oneShots == nil {
		e.oneShots = map[string]*oneShotRes{}
	}
	rr, ok := e.oneShots[k]
	if !ok {
		rr = &oneShotRes{}
		e.oneShots[k] = rr
	}
	e.mu.Unlock()
	rr.once.Do(func() { rr.vs, _, rr.err = e.oneShot(files) })
	return append([]Viol{}, rr.vs...), rr.err
}

// runHist replays the history of c (Init, Edits) through the public API and fills in the observations of its last step
func (e *env) runHist(c *HistCase) {
	fail := func(err error) { c.Err = err.Error() }
	given, err := e.initDirs(c.Init)
	if err != nil {
		fail(err)
		return
	}
	dirs := map[string]map[string][]string{}
	for f, d := range given {
		dirs[f] = d
	}
	export := given
	cur := map[string]string{}
	for n, t := range c.Init {
		cur[n] = t
	}
	for i, ed := range c.Edits {
		cur[ed.File] = ed.Text
		if c.Mixed && i == len(c.Edits)-1 {
			break // the reporting run lints this file itself; the client's map is the one of before
		}
		col := e.collect(ed.File, ed.Text)
		if col.err != nil {
			fail(col.err)
			return
		}
		for f, d := range col.dirs {
			dirs[f] = d
		}
		export = col.dirs
	}
	merged := map[string][]report.Aggregate{}
	names := make([]string, 0, len(cur))
	for n := range cur {
		names = append(names, n)
	}
	sort.Strings(names)
	for _, n := range names {
		col := e.collect(n, cur[n])
		if col.err != nil {
			fail(col.err)
			return
		}
		for k, a := range col.aggs {
			merged[k] = append(merged[k], a...)
		}
	}
	l := e.aggLinter().WithAggregates(merged).WithIgnoreDirectives(dirs)
	var wg sync.WaitGroup
	var errObs, errFresh, errRaw error
	wg.Add(3)
	go func() {
		defer wg.Done()
		if c.Mixed && len(c.Edits) > 0 {
			last := c.Edits[len(c.Edits)-1]
			in, err := rules.InputFromMap(map[string]string{last.File: last.Text}, nil)
			if err != nil {
				errObs = err
				return
			}
			rep, err := l.WithInputModules(&in).WithExportAggregates(true).Lint(context.Background())
			if err != nil {
				errObs = err
				return
			}
			export = rep.IgnoreDirectives
			c.Obs = violsOf(rep, func(s string) string { return s }, true)
			return
		}
		rep, err := l.Lint(context.Background())
		if err != nil {
			errObs = err
			return
		}
		c.Obs = violsOf(rep, func(s string) string { return s }, true)
	}()
	go func() { defer wg.Done(); c.Fresh, errFresh = e.oneShotMemo(cur) }()
	go func() { defer wg.Done(); c.Raw, errRaw = e.oneShotMemo(defuseAll(cur)) }()
	wg.Wait()
	for _, err := range []error{errObs, errFresh, errRaw} {
		if err != nil {
			fail(err)
			return
		}
	}
	c.Files, c.Export = cur, export
	if c.Export == nil {
		c.Export = map[string]map[string][]string{}
	}
	if c.Obs == nil {
		c.Obs = []Viol{}
	}
	if c.Fresh == nil {
		c.Fresh = []Viol{}
	}
	if c.Raw == nil {
		c.Raw = []Viol{}
	}
	c.PredOK = sameViols(c.Obs, c.Fresh)
}

func e2eHistories(e *env, r *hutil.Rng, out *hutil.Out, wss []workspace, nHist, lenHist int) {
	var cases []*HistCase
	for _, w := range wss {
		if len(w.Files) < 2 {
			continue
		}
		texts := wsTexts(w.Files)
		stripped := map[string][]string{}
		strippedTexts := map[string]string{}
		for n, ls := range w.Files {
			stripped[n] = stripDirectives(ls)
			strippedTexts[n] = joinLines(stripped[n])
		}
		raw0, _, err := e.oneShot(strippedTexts)
		if err != nil {
			panic(fmt.Sprintf("workspace %s without directives: %v", w.Name, err))
		}
		seen := map[string]bool{}
		var targets []Viol
		var titles []string
		for _, v := range raw0 {
			if !contains(titles, v.Title) {
				titles = append(titles, v.Title)
			}
			k := violKey(Viol{File: v.File, Row: v.Row, Title: v.Title})
			if v.Row == 0 || seen[k] || v.Row > len(stripped[v.File]) || strings.Contains(stripped[v.File][v.Row-1], "#") {
				continue
			}
			seen[k] = true
			targets = append(targets, v)
		}
		hutil.Shuffle(r, targets)
		targets = spreadByTitle(targets)
		if len(targets) > nHist {
			targets = targets[:nHist]
		}
		initComments := map[string][]Comment{}
		names := make([]string, 0, len(texts))
		for n := range texts {
			names = append(names, n)
		}
		sort.Strings(names)
		for _, n := range names {
			cs, err := parseComments(n, texts[n])
			must(err)
			initComments[n] = cs
		}
		for h, tv := range targets {
			tv := tv
			other := "some-other-rule"
			for _, t := range titles {
				if t != tv.Title && r.Below(2) == 0 {
					other = t
					break
				}
			}
			mkStep := func(file, kind string) (HistStep, bool) {
				var text string
				ok := true
				switch {
				case kind == "base":
					text = texts[file]
				case file == tv.File:
					text, ok = versionOf(stripped[file], kind, tv.Row, tv.Title, other)
				default:
					text = strippedTexts[file] // another file loses its directives
				}
				if !ok {
					return HistStep{}, false
				}
				cs, err := parseComments(file, text)
				if err != nil {
					return HistStep{}, false
				}
				return HistStep{File: file, VKind: kind, Text: text, Comments: cs}, true
			}
			// add, remove (the file has no directive left), add again; then a random walk over the versions, now and
			// then replacing another file in between
			kinds := []string{"none", "rule-same", "rule-above", "rule-list", "other", "other-row"}
			var edits []HistStep
			curKind := ""
			push := func(file, kind string) {
				if st, ok := mkStep(file, kind); ok {
					edits = append(edits, st)
					if file == tv.File {
						curKind = kind
					}
				}
			}
			push(tv.File, "rule-same")
			push(tv.File, "none")
			push(tv.File, hutil.Choice(r, []string{"rule-same", "rule-above", "rule-list"}))
			for guard := 0; len(edits) < lenHist && guard < 4*lenHist; guard++ {
				if r.Below(4) == 0 {
					var others []string
					for _, n := range names {
						if n != tv.File {
							others = append(others, n)
						}
					}
					push(hutil.Choice(r, others), hutil.Choice(r, []string{"none", "base"}))
					continue
				}
				k := hutil.Choice(r, kinds)
				if k == curKind || (curKind != "none" && k != "none" && r.Below(2) == 0) {
					k = "none" // transitions to "no directive at all" are what a stale entry survives
					if curKind == "none" {
						continue
					}
				}
				push(tv.File, k)
			}
			for i := range edits {
				for _, mixed := range []bool{false, true} {
					cases = append(cases, &HistCase{Kind: "hist", WS: w.Name, H: h, Step: i, Mixed: mixed, Target: &tv,
						Init: texts, InitComments: initComments, Edits: edits[:i+1]})
				}
			}
		}
	}
	var wg sync.WaitGroup
	sem := make(chan struct{}, runtime.NumCPU()/2+1) // every case runs three lints at a time
	for _, c := range cases {
		wg.Add(1)
		go func(c *HistCase) {
			defer wg.Done()
			sem <- struct{}{}
			defer func() { <-sem }()
			e.runHist(c)
		}(c)
	}
	wg.Wait()
	for _, c := range cases {
		out.Emit(c)
	}
}

// ---------------------------------------------------------------- main

func main() {
	if len(os.Args) < 4 {
		fmt.Fprintln(os.Stderr, "usage: c06 <out.jsonl> <tier> <workdir> [replay.json]")
		os.Exit(2)
	}
	outPath, tier, wd := os.Args[1], os.Args[2], os.Args[3]
	out := hutil.NewOut(outPath)
	defer out.Close()
	r := hutil.NewRng(hutil.SeedFromEnv())
	e := setupEnv(wd)
	o := &opa{pq: map[string]*rego.PreparedEvalQuery{}}

	if len(os.Args) > 4 {
		replay(e, o, out, os.Args[4])
		return
	}

	nHelper, nMods, maxT, nGenWs, maxAggT := 400, 6, 8, 1, 2
	if tier == "thorough" {
		nHelper, nMods, maxT, nGenWs, maxAggT = 3000, 24, 10, 8, 6
	}
	t0 := time.Now()
	lap := func(what string) {
		fmt.Fprintf(os.Stderr, "c06: %s done at %.1fs\n", what, time.Since(t0).Seconds())
	}
	corpusHelper(o, out, wd)
	helperCases(o, r, out, nHelper)
	lap("helpers")

	snippets = validSnippets()
	var mods []*module
	for i := 0; i < nMods; i++ {
		mods = append(mods, genModule(r, i))
	}
	e2ePerFile(e, r, out, mods, maxT)
	lap("per-file e2e")

	wss := fixedWorkspaces()
	for i := 0; i < nGenWs; i++ {
		wss = append(wss, genWorkspace(r, i))
	}
	e2eAggregate(e, r, out, wss, maxAggT, tier != "thorough", false)
	lap("aggregate e2e")
	// the same aggregate-rule cases with the modules named in other spellings (quick: directive naming the rule only)
	nameT := 2
	if tier == "thorough" {
		nameT = 4
	}
	e2eAggregate(e, r, out, respelled(wss), nameT, tier != "thorough", tier != "thorough")
	lap("aggregate e2e, file name spellings")
	nHist, lenHist := 2, 7
	if tier == "thorough" {
		nHist, lenHist = 3, 12
	}
	e2eHistories(e, r, out, wss, nHist, lenHist)
	lap("histories")
}

// corpusHelper: fixed regression inputs (corpus/C06/*.json are copied into <workdir>/corpus by the driver)
func corpusHelper(o *opa, out *hutil.Out, wd string) {
	files, _ := filepath.Glob(filepath.Join(wd, "corpus", "*.json"))
	sort.Strings(files)
	for _, f := range files {
		b, err := os.ReadFile(f)
		if err != nil {
			continue
		}
		var c struct {
			Comments []struct {
				Row  int    `json:"row"`
				Text string `json:"text"`
			} `json:"comments"`
			V *struct {
				Title string `json:"title"`
				Row   int    `json:"row"`
			} `json:"v"`
		}
		if json.Unmarshal(b, &c) != nil {
			continue
		}
		var cs []Comment
		var texts []string
		for _, x := range c.Comments {
			cs = append(cs, mkComment(x.Row, x.Text))
			texts = append(texts, x.Text)
		}
		in := commentsInput(cs, texts)
		x, def, errc := o.eval(qDirs, in)
		rec := map[string]any{"kind": "dir", "comments": cs, "corpus": filepath.Base(f)}
		switch {
		case errc == "conflict":
			rec["conflict"] = true
		case errc != "":
			rec["error"] = errc
		case !def:
			rec["entries"] = []entry{}
		default:
			rec["entries"] = entriesOf(parseDirMap(x))
		}
		out.Emit(rec)
		if c.V != nil {
			vin := map[string]any{"title": c.V.Title, "category": "c"}
			if c.V.Row > 0 {
				vin["location"] = map[string]any{"file": "p.rego", "row": c.V.Row, "col": 1, "text": "x"}
			}
			in["v"] = vin
			_, def, errc := o.eval(qIgnored, in)
			if errc == "" {
				out.Emit(map[string]any{"kind": "ign", "comments": cs, "corpus": filepath.Base(f),
					"v": Viol{Cat: "c", Title: c.V.Title, File: "p.rego", Row: c.V.Row, Col: 1}, "obs": def})
			}
		}
	}
}

// replay re-runs one stored case (the "case" object of a replay file written by the driver)
func replay(e *env, o *opa, out *hutil.Out, path string) {
	b, err := os.ReadFile(path)
	must(err)
	var rp struct {
		Case json.RawMessage `json:"case"`
	}
	must(json.Unmarshal(b, &rp))
	var head struct {
		Kind string `json:"kind"`
	}
	must(json.Unmarshal(rp.Case, &head))
	switch head.Kind {
	case "e2e":
		var c E2E
		must(json.Unmarshal(rp.Case, &c))
		fs := map[string]string{"m.rego": c.Text, "d_m.rego": defuse(c.Text), "e_m.rego": c.TextAfter, "d_e_m.rego": defuse(c.TextAfter)}
		res, in, err := batchLint(e.perFileLinter(), fs)
		must(err)
		c.Before, c.Raw, c.After, c.RawAfter = res["m.rego"], res["d_m.rego"], res["e_m.rego"], res["d_e_m.rego"]
		c.Comments, c.CommentsA = commentsOf(in, "m.rego"), commentsOf(in, "e_m.rego")
		q := editRow(c.Place, c.Target.Row)
		if c.Place == "same" {
			c.HShift = sameViols(c.RawAfter, c.Raw)
		} else {
			c.HShift = sameViols(c.RawAfter, shiftViols(c.Raw, "m.rego", q))
		}
		c.PredOK = sameViols(expectedAfter(c.Before, "m.rego", c.Place, c.Target.Row, c.Names), c.After)
		out.Emit(c)
	case "hist":
		var c HistCase
		must(json.Unmarshal(rp.Case, &c))
		c.Obs, c.Fresh, c.Raw, c.Err = nil, nil, nil, ""
		e.runHist(&c)
		out.Emit(c)
	case "agg":
		var c AggCase
		must(json.Unmarshal(rp.Case, &c))
		var in rules.Input
		var err error
		switch c.Mode {
		case "oneshot":
			c.Obs, in, err = e.oneShot(c.Files)
			must(err)
			c.Raw, _, err = e.oneShot(defuseAll(c.Files))
			must(err)
		case "mixed":
			c.Obs, in, err = e.mixed(c.Base, c.Target.File, c.Files[c.Target.File])
			must(err)
			c.Raw, _, err = e.oneShot(defuseAll(c.Files))
			must(err)
		default:
			in, err = rules.InputFromMap(c.Files, nil)
			must(err)
			c.Obs, err = e.twoPhase(c.Files, c.Mode == "twophase-dirs")
			must(err)
			c.Raw, _, err = e.oneShot(defuseAll(c.Files))
			must(err)
		}
		c.Comments = allComments(in)
		if c.Target != nil {
			c.PredOK = sameViols(expectedAfter(c.Before, c.Target.File, c.Place, c.Target.Row, c.Names), c.Obs)
		}
		out.Emit(c)
	default:
		// helper-level cases are pure data: re-evaluate through OPA
		var c struct {
			Kind     string    `json:"kind"`
			Comments []Comment `json:"comments"`
			V        *Viol     `json:"v"`
		}
		must(json.Unmarshal(rp.Case, &c))
		var texts []string
		for _, x := range c.Comments {
			bs := make([]byte, len(x.Text))
			for i, v := range x.Text {
				bs[i] = byte(v)
			}
			texts = append(texts, string(bs))
		}
		in := commentsInput(c.Comments, texts)
		x, def, errc := o.eval(qDirs, in)
		rec := map[string]any{"kind": "dir", "comments": c.Comments}
		switch {
		case errc == "conflict":
			rec["conflict"] = true
		case errc != "":
			rec["error"] = errc
		case !def:
			rec["entries"] = []entry{}
		default:
			rec["entries"] = entriesOf(parseDirMap(x))
		}
		out.Emit(rec)
		if c.V != nil {
			vin := map[string]any{"title": c.V.Title, "category": "c"}
			if c.V.Row > 0 {
				vin["location"] = map[string]any{"file": "p.rego", "row": c.V.Row, "col": 1, "text": "x"}
			}
			in["v"] = vin
			_, def, errc := o.eval(qIgnored, in)
			if errc == "" {
				out.Emit(map[string]any{"kind": "ign", "comments": c.Comments, "v": *c.V, "obs": def})
			}
		}
	}
}
