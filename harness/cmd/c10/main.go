// C10 harness: generated reports through every real reporter of pkg/reporter (public API, writing to a
// buffer); each output is parsed by an independent parser (encoding/xml, encoding/json token stream, line
// regexps) into the abstract document of coq/theories/Model/Reporters.v, and the predicate "every
// violation appears exactly once with its file, position, rule and level" is computed directly here.
//
//	c10 gen <out.jsonl> <tier>          generate (seed from VERIF_SEED), corpus first if given as 4th arg
//	c10 replay <case.json> <out.jsonl>  re-run one stored case
//	c10 parse <format> <nocolor> <file> parse one output produced by the regal binary
//	c10 parsebatch <manifest.json>      the same for many outputs (no colours)
//	c10 checkbatch <manifest.json>      outputs (files) against the report a json run published: exactly-once predicate only
//
// All strings are written hex-encoded (outputs may contain arbitrary bytes); "q" fields are %q renderings
// for the human reader of a replay file.
package main

import (
	"bytes"
	"context"
	"encoding/hex"
	"encoding/json"
	"encoding/xml"
	"fmt"
	"os"
	"reflect"
	"regexp"
	"sort"
	"strconv"
	"strings"
	"unicode/utf8"

	"github.com/fatih/color"

	"github.com/styrainc/regal/pkg/report"
	"github.com/styrainc/regal/pkg/reporter"

	"verifharness/hutil"
)

type H = string // hex of the bytes

func hx(s string) H { return hex.EncodeToString([]byte(s)) }
func unhx(h H) string {
	b, err := hex.DecodeString(h)
	if err != nil {
		panic(err)
	}
	return string(b)
}

// ---------------------------------------------------------------- report schema of the case files

type JVal struct {
	T string   `json:"t"`
	B bool     `json:"b,omitempty"`
	N uint64   `json:"n,omitempty"`
	S H        `json:"s,omitempty"`
	L []JVal   `json:"l,omitempty"`
	F []JField `json:"f,omitempty"`
}
type JField struct {
	K H    `json:"k"`
	V JVal `json:"v"`
}

type CLoc struct {
	End    *[2]int `json:"end"`
	Text   *H      `json:"text"`
	File   H       `json:"file"`
	Col    int     `json:"col"`
	Row    int     `json:"row"`
	Offset int     `json:"offset"`
}
type CRel struct {
	Desc H `json:"desc"`
	Ref  H `json:"ref"`
}
type CViolation struct {
	Title   H      `json:"title"`
	Desc    H      `json:"desc"`
	Cat     H      `json:"cat"`
	Level   H      `json:"level"`
	Related []CRel `json:"related"`
	Loc     CLoc   `json:"loc"`
	IsAgg   bool   `json:"isagg"`
}
type CNotice struct {
	Title H `json:"title"`
	Desc  H `json:"desc"`
	Cat   H `json:"cat"`
	Level H `json:"level"`
	Sev   H `json:"sev"`
}
type CReport struct {
	// payload selectors: 0 = absent, k>0 = k-th fixed payload shape (see payloads())
	Aggregates int          `json:"aggregates"`
	Metrics    int          `json:"metrics"`
	AggProfile bool         `json:"aggprofile"`
	Ignore     int          `json:"ignore"`
	Violations []CViolation `json:"violations"`
	Notices    []CNotice    `json:"notices"`
	Profile    int          `json:"profile"`
	Summary    [4]int       `json:"summary"` // scanned, failed, skipped, numviol
	// filled by the harness: the payloads as JSON values (encoding/json rendering of the Go values)
	AggregatesJ *JVal `json:"aggregates_j"`
	MetricsJ    *JVal `json:"metrics_j"`
	IgnoreJ     *JVal `json:"ignore_j"`
	ProfileJ    *JVal `json:"profile_j"`
}

type Case struct {
	ID      int            `json:"id"`
	Gen     string         `json:"gen"`
	NoColor bool           `json:"nocolor"`
	Report  CReport        `json:"report"`
	Docs    map[string]any `json:"docs,omitempty"`
	Pred    map[string]any `json:"pred,omitempty"`
	Q       []string       `json:"q,omitempty"`
}

func payloadAggregates(k int) map[string][]report.Aggregate {
	if k == 0 {
		return nil
	}
	m := map[string][]report.Aggregate{
		"imports/unresolved-import": {
			{"rule": map[string]any{"category": "imports", "title": "unresolved-import"},
				"aggregate_source": map[string]any{"file": "a.rego", "package_path": []any{"a", "b"}},
				"aggregate_data":   map[string]any{"n": 3, "s": "x<y"}},
		},
	}
	if k > 1 {
		m["custom/agg"] = []report.Aggregate{{"rule": map[string]any{"category": "custom", "title": "agg"}}, {}}
	}
	return m
}

func payloadMetrics(k int) map[string]any {
	if k == 0 {
		return nil
	}
	m := map[string]any{"timer_regal_lint_total_ns": 123456789, "timer_rego_query_eval_ns": 42}
	if k > 1 {
		m["counter_x"] = 0
	}
	return m
}

func payloadIgnore(k int) map[string]map[string][]string {
	if k == 0 {
		return nil
	}
	m := map[string]map[string][]string{"a.rego": {"3": {"opa-fmt", "line-length"}}}
	if k > 1 {
		m["b \"q\".rego"] = map[string][]string{"10": {"x"}, "2": {}}
	}
	return m
}

func payloadProfile(k int) []report.ProfileEntry {
	if k == 0 {
		return nil
	}
	p := []report.ProfileEntry{{Location: "bundle/regal/main.rego:10", TotalTimeNs: 1000, NumEval: 3, NumRedo: 1, NumGenExpr: 2}}
	if k > 1 {
		p = append(p, report.ProfileEntry{Location: "x.rego:1"})
	}
	return p
}

func toReal(c *CReport) report.Report {
	r := report.Report{
		Aggregates:       payloadAggregates(c.Aggregates),
		Metrics:          payloadMetrics(c.Metrics),
		IgnoreDirectives: payloadIgnore(c.Ignore),
		Profile:          payloadProfile(c.Profile),
		Summary: report.Summary{FilesScanned: c.Summary[0], FilesFailed: c.Summary[1],
			RulesSkipped: c.Summary[2], NumViolations: c.Summary[3]},
	}
	if c.AggProfile {
		r.AggregateProfile = map[string]report.ProfileEntry{"l": {Location: "l", NumEval: 1}}
	}
	for _, v := range c.Violations {
		rv := report.Violation{Title: unhx(v.Title), Description: unhx(v.Desc), Category: unhx(v.Cat),
			Level: unhx(v.Level), IsAggregate: v.IsAgg}
		for _, x := range v.Related {
			rv.RelatedResources = append(rv.RelatedResources, report.RelatedResource{Description: unhx(x.Desc), Reference: unhx(x.Ref)})
		}
		rv.Location = report.Location{File: unhx(v.Loc.File), Column: v.Loc.Col, Row: v.Loc.Row, Offset: v.Loc.Offset}
		if v.Loc.End != nil {
			rv.Location.End = &report.Position{Row: v.Loc.End[0], Column: v.Loc.End[1]}
		}
		if v.Loc.Text != nil {
			t := unhx(*v.Loc.Text)
			rv.Location.Text = &t
		}
		r.Violations = append(r.Violations, rv)
	}
	for _, n := range c.Notices {
		r.Notices = append(r.Notices, report.Notice{Title: unhx(n.Title), Description: unhx(n.Desc), Category: unhx(n.Cat),
			Level: unhx(n.Level), Severity: unhx(n.Sev)})
	}
	c.AggregatesJ = payloadJ(r.Aggregates, len(r.Aggregates) > 0)
	c.MetricsJ = payloadJ(r.Metrics, len(r.Metrics) > 0)
	c.IgnoreJ = payloadJ(r.IgnoreDirectives, len(r.IgnoreDirectives) > 0)
	c.ProfileJ = payloadJ(r.Profile, len(r.Profile) > 0)
	return r
}

func payloadJ(v any, present bool) *JVal {
	if !present {
		return nil
	}
	b, err := json.Marshal(v)
	if err != nil {
		panic(err)
	}
	j, err := parseJVal(b)
	if err != nil {
		panic(err)
	}
	return &j
}

// ---------------------------------------------------------------- independent parsers

// ordered JSON value from the token stream of encoding/json
func parseJVal(b []byte) (JVal, error) {
	dec := json.NewDecoder(bytes.NewReader(b))
	dec.UseNumber()
	v, err := readJ(dec)
	if err != nil {
		return JVal{}, err
	}
	if _, err := dec.Token(); err == nil {
		return JVal{}, fmt.Errorf("trailing data after JSON value")
	}
	return v, nil
}

func readJ(dec *json.Decoder) (JVal, error) {
	t, err := dec.Token()
	if err != nil {
		return JVal{}, err
	}
	switch x := t.(type) {
	case json.Delim:
		switch x {
		case '[':
			out := JVal{T: "arr", L: []JVal{}}
			for dec.More() {
				e, err := readJ(dec)
				if err != nil {
					return JVal{}, err
				}
				out.L = append(out.L, e)
			}
			_, err := dec.Token()
			return out, err
		case '{':
			out := JVal{T: "obj", F: []JField{}}
			for dec.More() {
				kt, err := dec.Token()
				if err != nil {
					return JVal{}, err
				}
				k, ok := kt.(string)
				if !ok {
					return JVal{}, fmt.Errorf("object key is not a string")
				}
				e, err := readJ(dec)
				if err != nil {
					return JVal{}, err
				}
				out.F = append(out.F, JField{K: hx(k), V: e})
			}
			_, err := dec.Token()
			return out, err
		}
		return JVal{}, fmt.Errorf("unexpected delimiter %v", x)
	case bool:
		return JVal{T: "bool", B: x}, nil
	case json.Number:
		n, err := strconv.ParseUint(string(x), 10, 64)
		if err != nil {
			return JVal{}, fmt.Errorf("number outside the modelled domain (non-negative integers): %s", x)
		}
		return JVal{T: "num", N: n}, nil
	case string:
		return JVal{T: "str", S: hx(x)}, nil
	case nil:
		return JVal{T: "null"}, nil
	}
	return JVal{}, fmt.Errorf("unexpected token %v", t)
}

type PEntry struct {
	Rule   H     `json:"rule"`
	Level  *H    `json:"level"`  // "Level:" row (no colour support)
	Yellow *bool `json:"yellow"` // colour of the description (colour mode)
	Desc   H     `json:"desc"`
	Cat    H     `json:"cat"`
	Loc    H     `json:"loc"`
	Text   *H    `json:"text"`
	Doc    H     `json:"doc"`
}
type PDoc struct {
	Entries []PEntry `json:"entries"`
	Footer  H        `json:"footer"`
}

const (
	ansiYellow = "\x1b[33m"
	ansiRed    = "\x1b[31m"
	ansiCyan   = "\x1b[36m"
	ansiReset  = "\x1b[0m"
)

var labels = []string{"Rule:", "Level:", "Description:", "Category:", "Location:", "Text:", "Documentation:"}

// one row of pretty's table: label, padding, TAB, value, padding, TAB
func prettyRow(line string, colour bool) (label, value string, sep, ok bool) {
	if !strings.HasSuffix(line, "\t") {
		return "", "", false, false
	}
	i := strings.IndexByte(line, '\t')
	first := strings.TrimRight(line[:i], " ")
	if first == "" && i == len(line)-1 {
		return "", "", true, true // the empty row between two violations
	}
	if i == len(line)-1 {
		return "", "", false, false
	}
	if colour {
		if !strings.HasPrefix(first, ansiYellow) || !strings.HasSuffix(first, ansiReset) {
			return "", "", false, false
		}
		first = first[len(ansiYellow) : len(first)-len(ansiReset)]
	}
	found := false
	for _, l := range labels {
		if l == first {
			found = true
		}
	}
	if !found {
		return "", "", false, false
	}
	return first, strings.TrimRight(line[i+1:len(line)-1], " "), false, true
}

func unwrap(v, code string) (string, bool) {
	if strings.HasPrefix(v, code) && strings.HasSuffix(v, ansiReset) && len(v) >= len(code)+len(ansiReset) {
		return v[len(code) : len(v)-len(ansiReset)], true
	}
	return "", false
}

// parsePretty returns the document and the rest of the output after the footer's final newline
func parsePretty(out string, colour bool) (PDoc, error) {
	doc := PDoc{Entries: []PEntry{}}
	pos := 0
	var cur *PEntry
	flush := func() {
		if cur != nil {
			doc.Entries = append(doc.Entries, *cur)
			cur = nil
		}
	}
	for pos < len(out) {
		nl := strings.IndexByte(out[pos:], '\n')
		if nl < 0 {
			break
		}
		line := out[pos : pos+nl]
		label, value, sep, ok := prettyRow(line, colour)
		if !ok {
			break
		}
		pos += nl + 1
		if sep {
			flush()
			continue
		}
		if label == "Rule:" {
			flush()
			cur = &PEntry{}
		}
		if cur == nil {
			return doc, fmt.Errorf("table row %q before any Rule: row", label)
		}
		switch label {
		case "Rule:":
			cur.Rule = hx(value)
		case "Level:":
			h := hx(value)
			cur.Level = &h
		case "Description:":
			if colour {
				if v, ok := unwrap(value, ansiYellow); ok {
					t := true
					cur.Yellow, value = &t, v
				} else if v, ok := unwrap(value, ansiRed); ok {
					f := false
					cur.Yellow, value = &f, v
				} else {
					return doc, fmt.Errorf("description is not coloured: %q", value)
				}
			}
			cur.Desc = hx(value)
		case "Category:":
			cur.Cat = hx(value)
		case "Location:", "Documentation:":
			if colour {
				v, ok := unwrap(value, ansiCyan)
				if !ok {
					return doc, fmt.Errorf("%s value is not coloured: %q", label, value)
				}
				value = v
			}
			if label == "Location:" {
				cur.Loc = hx(value)
			} else {
				cur.Doc = hx(value)
			}
		case "Text:":
			h := hx(value)
			cur.Text = &h
		}
	}
	flush()
	rest := out[pos:]
	if len(doc.Entries) > 0 {
		if !strings.HasPrefix(rest, "\n") {
			return doc, fmt.Errorf("no blank line after the table: %q", head(rest))
		}
		rest = rest[1:]
	}
	if !strings.HasSuffix(rest, "\n") {
		return doc, fmt.Errorf("output does not end in a newline")
	}
	doc.Footer = hx(rest[:len(rest)-1])
	return doc, nil
}

func head(s string) string {
	if len(s) > 60 {
		return s[:60]
	}
	return s
}

type CDoc struct {
	Empty   bool   `json:"empty"`
	Rows    [][2]H `json:"rows"`
	Summary H      `json:"summary"`
}

var spaces = regexp.MustCompile(` +`)

func normSpaces(s string) string { return strings.Trim(spaces.ReplaceAllString(s, " "), " ") }

func parseCompact(out string) (CDoc, error) {
	if out == "\n" {
		return CDoc{Empty: true, Rows: [][2]H{}}, nil
	}
	lines := strings.Split(out, "\n")
	if len(lines) < 7 || lines[len(lines)-1] != "" {
		return CDoc{}, fmt.Errorf("compact output too short or not newline terminated")
	}
	lines = lines[:len(lines)-1]
	border := lines[0]
	if !strings.HasPrefix(border, "+-") || lines[2] != border || lines[len(lines)-2] != border {
		return CDoc{}, fmt.Errorf("compact table borders not found")
	}
	if normSpaces(lines[1]) != "| Location | Description |" {
		return CDoc{}, fmt.Errorf("compact header row: %q", lines[1])
	}
	sum := lines[len(lines)-1]
	if !strings.HasPrefix(sum, " ") {
		return CDoc{}, fmt.Errorf("summary line: %q", sum)
	}
	var rows [][2]string
	for _, l := range lines[3 : len(lines)-2] {
		if !strings.HasPrefix(l, "| ") || !strings.HasSuffix(l, " |") {
			return CDoc{}, fmt.Errorf("compact row: %q", l)
		}
		body := l[2 : len(l)-2]
		i := strings.Index(body, " | ")
		if i < 0 {
			return CDoc{}, fmt.Errorf("compact row without column separator: %q", l)
		}
		loc, desc := strings.TrimRight(body[:i], " "), strings.TrimRight(body[i+3:], " ")
		if loc == "" && len(rows) > 0 { // continuation line of a wrapped description
			rows[len(rows)-1][1] += " " + desc
			continue
		}
		rows = append(rows, [2]string{loc, desc})
	}
	d := CDoc{Rows: [][2]H{}, Summary: hx(sum[1:])}
	for _, r := range rows {
		d.Rows = append(d.Rows, [2]H{hx(r[0]), hx(normSpaces(r[1]))})
	}
	return d, nil
}

type GAnn struct {
	Level H   `json:"level"`
	File  H   `json:"file"`
	Row   int `json:"row"`
	Col   int `json:"col"`
	Msg   H   `json:"msg"`
}
type GDoc struct {
	Pretty PDoc   `json:"pretty"`
	Anns   []GAnn `json:"anns"`
	Lines  []H    `json:"lines"` // the workflow command lines as written
}

// parseWorkflowCommand reads one "::name key=value,key=value::data" line the way the GitHub Actions runner
// does (ActionCommand.TryParseV2): the first "::" after the prefix ends the command part, properties are
// split on ',' and on the first '=', and values/data are unescaped (%0D %0A %3A %2C %25, data: %0D %0A %25).
func parseWorkflowCommand(line string) (name string, props map[string]string, data string, ok bool) {
	if !strings.HasPrefix(line, "::") {
		return "", nil, "", false
	}
	end := strings.Index(line[2:], "::")
	if end < 0 {
		return "", nil, "", false
	}
	end += 2
	info := line[2:end]
	props = map[string]string{}
	name = info
	if sp := strings.IndexByte(info, ' '); sp >= 0 {
		name = info[:sp]
		for _, kv := range strings.Split(strings.TrimSpace(info[sp+1:]), ",") {
			pair := strings.SplitN(kv, "=", 2)
			if len(pair) == 2 && pair[0] != "" && pair[1] != "" {
				props[pair[0]] = unescapeWorkflow(pair[1], true)
			}
		}
	}
	return name, props, unescapeWorkflow(line[end+2:], false), true
}

func unescapeWorkflow(s string, property bool) string {
	s = strings.ReplaceAll(s, "%0D", "\r")
	s = strings.ReplaceAll(s, "%0A", "\n")
	if property {
		s = strings.ReplaceAll(s, "%3A", ":")
		s = strings.ReplaceAll(s, "%2C", ",")
	}
	return strings.ReplaceAll(s, "%25", "%")
}

func parseGitHub(out string, colour bool) (GDoc, error) {
	if !strings.HasSuffix(out, "\n") {
		return GDoc{}, fmt.Errorf("output does not end in a newline")
	}
	lines := strings.Split(out[:len(out)-1], "\n")
	k := len(lines)
	for k > 0 && strings.HasPrefix(lines[k-1], "::") {
		k--
	}
	g := GDoc{Anns: []GAnn{}, Lines: []H{}}
	for _, l := range lines[k:] {
		g.Lines = append(g.Lines, hx(l))
		name, props, data, ok := parseWorkflowCommand(l)
		if !ok {
			return g, fmt.Errorf("not a workflow command: %q", head(l))
		}
		row, e1 := strconv.Atoi(props["line"])
		col, e2 := strconv.Atoi(props["col"])
		if e1 != nil || e2 != nil {
			return g, fmt.Errorf("workflow command without numeric line/col properties: %q", head(l))
		}
		g.Anns = append(g.Anns, GAnn{Level: hx(name), File: hx(props["file"]), Row: row, Col: col, Msg: hx(data)})
	}
	p, err := parsePretty(strings.Join(lines[:k], "\n")+"\n", colour)
	g.Pretty = p
	return g, err
}

type SRule struct {
	ID       H  `json:"id"`
	Desc     H  `json:"desc"`
	Help     *H `json:"help"`
	Cat      H  `json:"cat"`
	DefLevel *H `json:"deflevel,omitempty"` // defaultConfiguration.level, when the rule carries one
}
type SRegion struct {
	Row int     `json:"row"`
	Col int     `json:"col"`
	End *[2]int `json:"end"`
}
type SResult struct {
	Rule   H        `json:"rule"`
	Index  *int     `json:"index"`
	Kind   *H       `json:"kind"`
	Level  H        `json:"level"`
	Msg    H        `json:"msg"`
	HasLoc bool     `json:"hasloc"`
	URI    H        `json:"uri"`
	Region *SRegion `json:"region"`
	// further references a result may carry (none of them is written by the reporter today)
	HasLevel bool `json:"haslevel"`           // the result has a level property of its own
	RefID    *H   `json:"refid,omitempty"`    // result.rule.id
	RefIndex *int `json:"refindex,omitempty"` // result.rule.index
	ArtIndex *int `json:"artindex,omitempty"` // artifactLocation.index
}
type SDoc struct {
	Rules     []SRule   `json:"rules"`
	Artifacts []H       `json:"artifacts"`
	Results   []SResult `json:"results"`
}

type sarifFile struct {
	Version string `json:"version"`
	Runs    []struct {
		Tool struct {
			Driver struct {
				Name  string `json:"name"`
				Rules []struct {
					ID               string `json:"id"`
					ShortDescription *struct {
						Text string `json:"text"`
					} `json:"shortDescription"`
					HelpURI              *string        `json:"helpUri"`
					Properties           map[string]any `json:"properties"`
					DefaultConfiguration *struct {
						Level *string `json:"level"`
					} `json:"defaultConfiguration"`
				} `json:"rules"`
			} `json:"driver"`
		} `json:"tool"`
		Artifacts []struct {
			Location struct {
				URI string `json:"uri"`
			} `json:"location"`
		} `json:"artifacts"`
		Results []struct {
			RuleID    string  `json:"ruleId"`
			RuleIndex *int    `json:"ruleIndex"`
			Rule      *struct {
				ID    *string `json:"id"`
				Index *int    `json:"index"`
			} `json:"rule"`
			Kind      *string `json:"kind"`
			Level     *string `json:"level"`
			Message   struct {
				Text string `json:"text"`
			} `json:"message"`
			Locations []struct {
				PhysicalLocation struct {
					ArtifactLocation struct {
						URI   string `json:"uri"`
						Index *int   `json:"index"`
					} `json:"artifactLocation"`
					Region *struct {
						StartLine   *int `json:"startLine"`
						StartColumn *int `json:"startColumn"`
						EndLine     *int `json:"endLine"`
						EndColumn   *int `json:"endColumn"`
					} `json:"region"`
				} `json:"physicalLocation"`
			} `json:"locations"`
		} `json:"results"`
	} `json:"runs"`
}

func parseSarif(out string) (SDoc, error) {
	var f sarifFile
	dec := json.NewDecoder(strings.NewReader(out))
	if err := dec.Decode(&f); err != nil {
		return SDoc{}, err
	}
	if f.Version != "2.1.0" || len(f.Runs) != 1 {
		return SDoc{}, fmt.Errorf("expected SARIF 2.1.0 with one run")
	}
	run := f.Runs[0]
	d := SDoc{Rules: []SRule{}, Artifacts: []H{}, Results: []SResult{}}
	for _, r := range run.Tool.Driver.Rules {
		sr := SRule{ID: hx(r.ID)}
		if r.ShortDescription != nil {
			sr.Desc = hx(r.ShortDescription.Text)
		}
		if r.HelpURI != nil {
			h := hx(*r.HelpURI)
			sr.Help = &h
		}
		if c, ok := r.Properties["category"].(string); ok {
			sr.Cat = hx(c)
		}
		if r.DefaultConfiguration != nil && r.DefaultConfiguration.Level != nil {
			h := hx(*r.DefaultConfiguration.Level)
			sr.DefLevel = &h
		}
		d.Rules = append(d.Rules, sr)
	}
	for _, a := range run.Artifacts {
		d.Artifacts = append(d.Artifacts, hx(a.Location.URI))
	}
	for _, r := range run.Results {
		x := SResult{Rule: hx(r.RuleID), Index: r.RuleIndex, Msg: hx(r.Message.Text)}
		if r.Level != nil {
			x.Level, x.HasLevel = hx(*r.Level), true
		}
		if r.Rule != nil {
			if r.Rule.ID != nil {
				h := hx(*r.Rule.ID)
				x.RefID = &h
			}
			x.RefIndex = r.Rule.Index
		}
		if r.Kind != nil {
			h := hx(*r.Kind)
			x.Kind = &h
		}
		if len(r.Locations) > 1 {
			return d, fmt.Errorf("result with %d locations", len(r.Locations))
		}
		if len(r.Locations) == 1 {
			x.HasLoc = true
			pl := r.Locations[0].PhysicalLocation
			x.URI = hx(pl.ArtifactLocation.URI)
			x.ArtIndex = pl.ArtifactLocation.Index
			if pl.Region != nil {
				if pl.Region.StartLine == nil || pl.Region.StartColumn == nil {
					return d, fmt.Errorf("region without start line/column")
				}
				g := SRegion{Row: *pl.Region.StartLine, Col: *pl.Region.StartColumn}
				if pl.Region.EndLine != nil || pl.Region.EndColumn != nil {
					if pl.Region.EndLine == nil || pl.Region.EndColumn == nil {
						return d, fmt.Errorf("region with half an end position")
					}
					g.End = &[2]int{*pl.Region.EndLine, *pl.Region.EndColumn}
				}
				x.Region = &g
			}
		}
		d.Results = append(d.Results, x)
	}
	return d, nil
}

type JCase struct {
	Name  H `json:"name"`
	Class H `json:"class"`
	Msg   H `json:"msg"`
	Type  H `json:"type"`
	Data  H `json:"data"`
	Rule  H `json:"rule"`
}
type JSuite struct {
	Name     H       `json:"name"`
	Tests    int     `json:"tests"`
	Failures int     `json:"failures"`
	Cases    []JCase `json:"cases"`
}
type JDoc struct {
	Tests    int      `json:"tests"`
	Failures int      `json:"failures"`
	Suites   []JSuite `json:"suites"`
}

type xmlSuites struct {
	XMLName  xml.Name `xml:"testsuites"`
	Name     string   `xml:"name,attr"`
	Tests    int      `xml:"tests,attr"`
	Failures int      `xml:"failures,attr"`
	Errors   int      `xml:"errors,attr"`
	Suites   []struct {
		Name     string `xml:"name,attr"`
		Tests    int    `xml:"tests,attr"`
		Failures int    `xml:"failures,attr"`
		Errors   int    `xml:"errors,attr"`
		Cases    []struct {
			Name      string `xml:"name,attr"`
			Classname string `xml:"classname,attr"`
			Failure   *struct {
				Message string `xml:"message,attr"`
				Type    string `xml:"type,attr"`
				Data    string `xml:",chardata"`
			} `xml:"failure"`
			Error *struct{} `xml:"error"`
		} `xml:"testcase"`
	} `xml:"testsuite"`
}

var ruleLine = regexp.MustCompile(`(?s)^Rule: ([^\n]*)\n`)

func parseJUnit(out string) (JDoc, error) {
	var x xmlSuites
	dec := xml.NewDecoder(strings.NewReader(out))
	dec.Strict = true
	if err := dec.Decode(&x); err != nil {
		return JDoc{}, err
	}
	if x.Name != "regal" {
		return JDoc{}, fmt.Errorf("testsuites name %q", x.Name)
	}
	d := JDoc{Tests: x.Tests, Failures: x.Failures, Suites: []JSuite{}}
	for _, s := range x.Suites {
		js := JSuite{Name: hx(s.Name), Tests: s.Tests, Failures: s.Failures, Cases: []JCase{}}
		if s.Errors != 0 {
			return d, fmt.Errorf("suite with errors attribute %d", s.Errors)
		}
		for _, c := range s.Cases {
			if c.Failure == nil || c.Error != nil {
				return d, fmt.Errorf("testcase %q without failure element", c.Name)
			}
			jc := JCase{Name: hx(c.Name), Class: hx(c.Classname), Msg: hx(c.Failure.Message), Type: hx(c.Failure.Type), Data: hx(c.Failure.Data)}
			if m := ruleLine.FindStringSubmatch(c.Failure.Data); m != nil {
				jc.Rule = hx(m[1])
			} else {
				return d, fmt.Errorf("failure body without Rule: line")
			}
			js.Cases = append(js.Cases, jc)
		}
		d.Suites = append(d.Suites, js)
	}
	return d, nil
}

// ---------------------------------------------------------------- the predicate, computed here

type key struct {
	File     string
	Row, Col int
	Title    string
	Level    string
}

func (k key) String() string {
	return fmt.Sprintf("%q:%d:%d %q %q", k.File, k.Row, k.Col, k.Title, k.Level)
}

var locRe = regexp.MustCompile(`(?s)^(.*):([0-9]+):([0-9]+)$`)

func splitLoc(s string) (string, int, int) {
	if m := locRe.FindStringSubmatch(s); m != nil {
		r, e1 := strconv.Atoi(m[2])
		c, e2 := strconv.Atoi(m[3])
		if e1 == nil && e2 == nil {
			return m[1], r, c
		}
	}
	return s, 0, 0
}

func sameMultiset(want, got []key) (bool, string) {
	cnt := map[key]int{}
	for _, k := range want {
		cnt[k]++
	}
	for _, k := range got {
		cnt[k]--
	}
	var ks []key
	for k, n := range cnt {
		if n != 0 {
			ks = append(ks, k)
		}
	}
	if len(ks) == 0 {
		return true, ""
	}
	sort.Slice(ks, func(i, j int) bool { return ks[i].String() < ks[j].String() })
	k := ks[0]
	if cnt[k] > 0 {
		if cnt[k] == 1 && countKey(got, k) == 0 {
			return false, "missing: " + k.String()
		}
		return false, fmt.Sprintf("presented %d times instead of %d: %s", countKey(got, k), countKey(want, k), k)
	}
	return false, fmt.Sprintf("presented %d times instead of %d: %s", countKey(got, k), countKey(want, k), k)
}

func countKey(l []key, k key) int {
	n := 0
	for _, x := range l {
		if x == k {
			n++
		}
	}
	return n
}

func reportKeys(r report.Report, mask func(key) key) []key {
	var ks []key
	for _, v := range r.Violations {
		ks = append(ks, mask(key{v.Location.File, v.Location.Row, v.Location.Column, v.Title, v.Level}))
	}
	return ks
}

func ident(k key) key { return k }

func prettyKeys(p PDoc) []key {
	var ks []key
	for _, e := range p.Entries {
		f, r, c := splitLoc(unhx(e.Loc))
		lvl := "?"
		if e.Level != nil {
			lvl = unhx(*e.Level)
		} else if e.Yellow != nil {
			lvl = "error"
			if *e.Yellow {
				lvl = "warning"
			}
		}
		ks = append(ks, key{f, r, c, unhx(e.Rule), lvl})
	}
	return ks
}

// ---------------------------------------------------------------- internal consistency of one document
//
// Every format says some things twice: a SARIF result names its rule by id and by position in
// tool.driver.rules, JUnit carries tests=/failures= counts next to the test cases, the pretty footer and the
// compact summary count the rows above them, GitHub prints every violation as a table entry and as an
// annotation, the JSON summary counts the list it follows.  A consumer may read either of the two, so a document
// whose redundant parts contradict each other does not reflect the report, whichever part is the right one.
// These checks need no report and no model: they look at one parsed document only.  `trust` says whether the
// summary the footer is printed from is known to agree with the violation list (always for the linter's own
// reports; for generated reports when the generated summary does).

var footerRe = regexp.MustCompile(`^([0-9]+) files? linted\.(?: No violations found\.| ([0-9]+) violations? (?:\(([0-9]+) errors?, ([0-9]+) warnings?\) )?found(?: in ([0-9]+) files?)?\.)`)

func distinctCount(xs []string) int {
	m := map[string]bool{}
	for _, x := range xs {
		m[x] = true
	}
	return len(m)
}

func entryLevel(e PEntry) (string, bool) { // level, exact (false: colour only tells warning / not warning)
	if e.Level != nil {
		return unhx(*e.Level), true
	}
	if e.Yellow != nil && *e.Yellow {
		return "warning", true
	}
	return "error", false
}

func consistPretty(p PDoc, trust bool) string {
	m := footerRe.FindStringSubmatch(unhx(p.Footer))
	if m == nil {
		return fmt.Sprintf("footer not understood: %q", head(unhx(p.Footer)))
	}
	warn, errs, exact := 0, 0, true
	var files []string
	for _, e := range p.Entries {
		l, ex := entryLevel(e)
		exact = exact && ex
		switch l {
		case "warning":
			warn++
		case "error":
			errs++
		}
		f, _, _ := splitLoc(unhx(e.Loc))
		files = append(files, f)
	}
	if m[4] != "" {
		fw, _ := strconv.Atoi(m[4])
		fe, _ := strconv.Atoi(m[3])
		if fw != warn {
			return fmt.Sprintf("the footer counts %d warnings, the table shows %d", fw, warn)
		}
		if exact && fe != errs || !exact && fe > errs {
			return fmt.Sprintf("the footer counts %d errors, the table shows %d", fe, errs)
		}
	} else if m[2] != "" && warn > 0 {
		return fmt.Sprintf("the footer gives no warning count, the table shows %d warnings", warn)
	}
	if !trust {
		return ""
	}
	n := 0
	if m[2] != "" {
		n, _ = strconv.Atoi(m[2])
	}
	if n != len(p.Entries) {
		return fmt.Sprintf("the footer counts %d violations, the table has %d entries", n, len(p.Entries))
	}
	if m[5] != "" {
		k, _ := strconv.Atoi(m[5])
		if k != distinctCount(files) {
			return fmt.Sprintf("the footer counts %d files with violations, the table names %d", k, distinctCount(files))
		}
	}
	return ""
}

var compactSummaryRe = regexp.MustCompile(`^([0-9]+) files? linted , ([0-9]+) violations? found\.$`)

func consistCompact(c CDoc, trust bool) string {
	if c.Empty {
		return ""
	}
	m := compactSummaryRe.FindStringSubmatch(unhx(c.Summary))
	if m == nil {
		return fmt.Sprintf("summary line not understood: %q", head(unhx(c.Summary)))
	}
	if n, _ := strconv.Atoi(m[2]); trust && n != len(c.Rows) {
		return fmt.Sprintf("the summary counts %d violations, the table has %d rows", n, len(c.Rows))
	}
	return ""
}

const learnMore = ". To learn more, see: "

func consistGitHub(g GDoc, trust bool) string {
	if d := consistPretty(g.Pretty, trust); d != "" {
		return d
	}
	if len(g.Anns) != len(g.Pretty.Entries) {
		return fmt.Sprintf("%d table entries but %d annotations", len(g.Pretty.Entries), len(g.Anns))
	}
	for i, a := range g.Anns {
		e := g.Pretty.Entries[i]
		loc := unhx(a.File)
		if a.Row != 0 || a.Col != 0 {
			loc = fmt.Sprintf("%s:%d:%d", unhx(a.File), a.Row, a.Col)
		}
		if strings.TrimRight(loc, " ") != unhx(e.Loc) {
			return fmt.Sprintf("annotation %d is attached to %q, table entry %d is located at %q", i, loc, i, unhx(e.Loc))
		}
		if l, exact := entryLevel(e); exact && l != unhx(a.Level) || !exact && unhx(a.Level) == "warning" {
			return fmt.Sprintf("annotation %d has level %q, table entry %d shows %q", i, unhx(a.Level), i, l)
		}
		msg, ok := unhx(a.Msg), false
		for from := 0; !ok; {
			k := strings.Index(msg[from:], learnMore)
			if k < 0 {
				break
			}
			k += from
			// the table pads its cells: trailing spaces cannot be told from padding
			ok = strings.TrimRight(msg[:k], " ") == strings.TrimRight(unhx(e.Desc), " ") &&
				strings.TrimRight(msg[k+len(learnMore):], " ") == strings.TrimRight(unhx(e.Doc), " ")
			from = k + 1
		}
		if !ok && utf8.ValidString(msg) && !strings.ContainsAny(msg, "\n\r") {
			return fmt.Sprintf("annotation %d says %q, table entry %d has description %q and documentation %q", i, head(msg), i, head(unhx(e.Desc)), unhx(e.Doc))
		}
	}
	return ""
}

// sarifEffectiveLevel: SARIF 2.1.0 3.27.10: an absent level defaults to the rule's default configuration, else "warning"
func sarifEffectiveLevel(s SDoc, x SResult) string {
	if x.HasLevel {
		return unhx(x.Level)
	}
	if x.Kind != nil && unhx(*x.Kind) != "fail" {
		return "none"
	}
	if x.Index != nil && *x.Index >= 0 && *x.Index < len(s.Rules) && s.Rules[*x.Index].DefLevel != nil {
		return unhx(*s.Rules[*x.Index].DefLevel)
	}
	for _, r := range s.Rules {
		if r.ID == x.Rule && r.DefLevel != nil {
			return unhx(*r.DefLevel)
		}
	}
	return "warning"
}

func consistSarif(s SDoc) string {
	ids := map[string]int{}
	for i, r := range s.Rules {
		if j, dup := ids[unhx(r.ID)]; dup {
			return fmt.Sprintf("tool.driver.rules[%d] and [%d] have the same id %q", j, i, unhx(r.ID))
		}
		ids[unhx(r.ID)] = i
	}
	arts := map[string]int{}
	for i, a := range s.Artifacts {
		if j, dup := arts[unhx(a)]; dup {
			return fmt.Sprintf("artifacts[%d] and [%d] have the same uri %q", j, i, unhx(a))
		}
		arts[unhx(a)] = i
	}
	for i, x := range s.Results {
		id := unhx(x.Rule)
		if x.RefID != nil && unhx(*x.RefID) != id {
			return fmt.Sprintf("results[%d]: ruleId %q but rule.id %q", i, id, unhx(*x.RefID))
		}
		for _, idx := range []*int{x.Index, x.RefIndex} {
			if idx == nil {
				continue
			}
			if *idx < 0 || *idx >= len(s.Rules) {
				return fmt.Sprintf("results[%d] (ruleId %q): ruleIndex %d is outside tool.driver.rules (%d rules)", i, id, *idx, len(s.Rules))
			}
			if got := unhx(s.Rules[*idx].ID); got != id {
				return fmt.Sprintf("results[%d]: ruleId %q but ruleIndex %d, which is rule %q", i, id, *idx, got)
			}
		}
		if x.Index == nil && x.RefIndex == nil {
			if _, ok := ids[id]; !ok {
				return fmt.Sprintf("results[%d]: ruleId %q is not in tool.driver.rules", i, id)
			}
		}
		if x.HasLoc {
			uri := unhx(x.URI)
			if x.ArtIndex != nil {
				if *x.ArtIndex < 0 || *x.ArtIndex >= len(s.Artifacts) {
					return fmt.Sprintf("results[%d]: artifact index %d is outside artifacts (%d)", i, *x.ArtIndex, len(s.Artifacts))
				}
				if got := unhx(s.Artifacts[*x.ArtIndex]); got != uri {
					return fmt.Sprintf("results[%d]: artifact uri %q but index %d, which is %q", i, uri, *x.ArtIndex, got)
				}
			}
			if _, ok := arts[uri]; !ok && len(s.Artifacts) > 0 {
				return fmt.Sprintf("results[%d]: artifact %q is not in the artifacts list", i, uri)
			}
		}
		if x.Kind != nil && unhx(*x.Kind) != "fail" && sarifEffectiveLevel(s, x) != "none" {
			return fmt.Sprintf("results[%d]: kind %q with level %q (must be none)", i, unhx(*x.Kind), sarifEffectiveLevel(s, x))
		}
	}
	used := map[string]bool{}
	for _, x := range s.Results {
		if x.HasLoc {
			used[unhx(x.URI)] = true
		}
	}
	for _, a := range s.Artifacts {
		if !used[unhx(a)] {
			return fmt.Sprintf("artifact %q is listed but no result is located in it", unhx(a))
		}
	}
	return ""
}

var junitLocLine = regexp.MustCompile(`(?m)^Location: (.*)$`)

func consistJUnit(j JDoc) string {
	tests, failures := 0, 0
	for _, s := range j.Suites {
		if s.Tests != len(s.Cases) {
			return fmt.Sprintf("suite %q: tests=%d but %d test cases", unhx(s.Name), s.Tests, len(s.Cases))
		}
		if s.Failures != len(s.Cases) { // every test case read by parseJUnit has a failure element
			return fmt.Sprintf("suite %q: failures=%d but %d failed test cases", unhx(s.Name), s.Failures, len(s.Cases))
		}
		tests += len(s.Cases)
		failures += len(s.Cases)
		for _, c := range s.Cases {
			cl, name := unhx(c.Class), unhx(s.Name)
			rest := strings.TrimPrefix(cl, name)
			if !strings.HasPrefix(cl, name) || rest != "" && !regexp.MustCompile(`^:[0-9]+:[0-9]+$`).MatchString(rest) {
				return fmt.Sprintf("suite %q contains a test case with classname %q", name, cl)
			}
			if m := junitLocLine.FindStringSubmatch(unhx(c.Data)); m == nil || m[1] != cl {
				return fmt.Sprintf("test case with classname %q: the failure text has another Location line", cl)
			}
			if !strings.Contains(unhx(c.Name), "/"+unhx(c.Rule)+": ") {
				return fmt.Sprintf("test case %q: the failure text names rule %q", head(unhx(c.Name)), unhx(c.Rule))
			}
		}
	}
	if j.Tests != tests {
		return fmt.Sprintf("testsuites tests=%d but %d test cases in all suites", j.Tests, tests)
	}
	if j.Failures != failures {
		return fmt.Sprintf("testsuites failures=%d but %d failed test cases in all suites", j.Failures, failures)
	}
	return ""
}

func consistJSON(r report.Report) string {
	if r.Summary.NumViolations != len(r.Violations) {
		return fmt.Sprintf("summary.num_violations is %d, the violations list has %d entries", r.Summary.NumViolations, len(r.Violations))
	}
	var files []string
	for _, v := range r.Violations {
		files = append(files, v.Location.File)
	}
	if r.Summary.FilesFailed != distinctCount(files) {
		return fmt.Sprintf("summary.files_failed is %d, the violations name %d files", r.Summary.FilesFailed, distinctCount(files))
	}
	return ""
}

func summaryTrusted(r *report.Report) bool { return r == nil || consistJSON(*r) == "" }

func inconsistent(pr pred, detail string) pred {
	if pr.OK && detail != "" {
		return pred{false, "internally inconsistent document: " + detail}
	}
	return pr
}

// ---------------------------------------------------------------- running one case

func newReporter(format string, buf *bytes.Buffer) reporter.Reporter {
	switch format {
	case "pretty":
		return reporter.NewPrettyReporter(buf)
	case "festive":
		return reporter.NewFestiveReporter(buf)
	case "compact":
		return reporter.NewCompactReporter(buf)
	case "json":
		return reporter.NewJSONReporter(buf)
	case "github":
		return reporter.NewGitHubReporter(buf)
	case "sarif":
		return reporter.NewSarifReporter(buf)
	case "junit":
		return reporter.NewJUnitReporter(buf)
	}
	panic("unknown format " + format)
}

var formats = []string{"pretty", "festive", "compact", "json", "github", "sarif", "junit"}

func errDoc(err error, out string) map[string]any {
	return map[string]any{"error": err.Error(), "out_q": fmt.Sprintf("%q", head400(out))}
}

func head400(s string) string {
	if len(s) > 400 {
		return s[:400]
	}
	return s
}

type pred struct {
	OK     bool   `json:"ok"`
	Detail string `json:"detail,omitempty"`
}

// parseOutput parses one output and evaluates the predicate against r (when r != nil)
func parseOutput(format string, noColor bool, out string, r *report.Report) (any, pred) {
	chk := func(got []key, mask func(key) key) pred {
		if r == nil {
			return pred{OK: true}
		}
		ok, d := sameMultiset(reportKeys(*r, mask), got)
		return pred{ok, d}
	}
	switch format {
	case "pretty", "festive":
		p, err := parsePretty(out, !noColor)
		if err != nil {
			return errDoc(err, out), pred{false, "unparsable output: " + err.Error()}
		}
		pr := inconsistent(chk(prettyKeys(p), ident), consistPretty(p, summaryTrusted(r)))
		if pr.OK && !utf8.ValidString(out) && r != nil && reportIsUTF8(*r) {
			pr = pred{false, "output is not valid UTF-8 although every string of the report is"}
		}
		return p, pr
	case "compact":
		c, err := parseCompact(out)
		if err != nil {
			return errDoc(err, out), pred{false, "unparsable output: " + err.Error()}
		}
		// the compact table has no rule and no level column (known finding): positions only here
		var ks []key
		for _, row := range c.Rows {
			f, rr, cc := splitLoc(unhx(row[0]))
			ks = append(ks, key{f, rr, cc, "", ""})
		}
		pr := inconsistent(chk(ks, func(k key) key { return key{k.File, k.Row, k.Col, "", ""} }), consistCompact(c, summaryTrusted(r)))
		if pr.OK && r != nil {
			for _, v := range r.Violations {
				if !strings.Contains(out, v.Title) || !strings.Contains(out, v.Level) {
					pr = pred{false, fmt.Sprintf("rule and level are not presented (Location and Description columns only): %q %q", v.Title, v.Level)}
					break
				}
			}
		}
		return c, pr
	case "github":
		g, err := parseGitHub(out, !noColor)
		if err != nil {
			return errDoc(err, out), pred{false, "unparsable output: " + err.Error()}
		}
		// rule from the pretty block, everything else from the workflow commands
		var ks []key
		if len(g.Anns) != len(g.Pretty.Entries) {
			return g, pred{false, fmt.Sprintf("%d table entries but %d annotations", len(g.Pretty.Entries), len(g.Anns))}
		}
		for i, a := range g.Anns {
			ks = append(ks, key{unhx(a.File), a.Row, a.Col, unhx(g.Pretty.Entries[i].Rule), unhx(a.Level)})
		}
		pr := chk(ks, ident)
		if pr.OK {
			pr = chk(prettyKeys(g.Pretty), ident)
		}
		return g, inconsistent(pr, consistGitHub(g, summaryTrusted(r)))
	case "sarif":
		s, err := parseSarif(out)
		if err != nil {
			return errDoc(err, out), pred{false, "unparsable output: " + err.Error()}
		}
		var ks []key
		for _, x := range s.Results {
			if x.Kind != nil {
				continue
			}
			k := key{File: unhx(x.URI), Title: unhx(x.Rule), Level: sarifEffectiveLevel(s, x)}
			if x.Region != nil {
				k.Row, k.Col = x.Region.Row, x.Region.Col
			}
			ks = append(ks, k)
		}
		pr := chk(ks, ident)
		if pr.OK && r != nil {
			// every notice with a severity is an informational result
			want := 0
			for _, n := range r.Notices {
				if n.Severity != "none" {
					want++
				}
			}
			got := 0
			for _, x := range s.Results {
				if x.Kind != nil && unhx(*x.Kind) == "informational" {
					got++
				}
			}
			if want != got {
				pr = pred{false, fmt.Sprintf("%d notices with a severity but %d informational results", want, got)}
			}
		}
		return s, inconsistent(pr, consistSarif(s))
	case "junit":
		j, err := parseJUnit(out)
		if err != nil {
			return errDoc(err, out), pred{false, "unparsable output: " + err.Error()}
		}
		var ks []key
		seen := map[string]bool{}
		dup := ""
		for _, s := range j.Suites {
			if seen[s.Name] {
				dup = unhx(s.Name)
			}
			seen[s.Name] = true
			for _, c := range s.Cases {
				f, rr, cc := splitLoc(unhx(c.Class))
				ks = append(ks, key{f, rr, cc, unhx(c.Rule), unhx(c.Type)})
			}
		}
		pr := chk(ks, xmlMask)
		if pr.OK && dup != "" {
			pr = pred{false, fmt.Sprintf("suite %q appears more than once", dup)}
		}
		return j, inconsistent(pr, consistJUnit(j))
	case "json":
		jv, err := parseJVal([]byte(out))
		if err != nil {
			return errDoc(err, out), pred{false, "unparsable output: " + err.Error()}
		}
		var back report.Report
		if err := json.Unmarshal([]byte(out), &back); err != nil {
			return errDoc(err, out), pred{false, "output does not decode into report.Report: " + err.Error()}
		}
		pr := chk(reportKeys(back, ident), ident)
		if pr.OK && r != nil {
			if d := roundTripDiff(*r, back); d != "" {
				pr = pred{false, "JSON does not parse back to the same report: " + d}
			}
		}
		if summaryTrusted(r) {
			pr = inconsistent(pr, consistJSON(back))
		}
		return map[string]any{"jval": jv}, pr
	}
	panic("format " + format)
}

// what encoding/xml can carry: characters outside the XML Char production come back as U+FFFD
func xmlMask(k key) key {
	return key{xmlSafe(k.File), k.Row, k.Col, xmlSafe(k.Title), xmlSafe(k.Level)}
}

func xmlSafe(s string) string {
	return strings.Map(func(r rune) rune {
		if r == 0x09 || r == 0x0A || r == 0x0D || r >= 0x20 && r <= 0xD7FF || r >= 0xE000 && r <= 0xFFFD || r >= 0x10000 && r <= 0x10FFFF {
			return r
		}
		return '\uFFFD'
	}, s)
}

func reportIsUTF8(r report.Report) bool {
	for _, v := range r.Violations {
		if !utf8.ValidString(v.Title + v.Description + v.Category + v.Level + v.Location.File) {
			return false
		}
		if v.Location.Text != nil && !utf8.ValidString(*v.Location.Text) {
			return false
		}
	}
	return true
}

// compares the exported JSON fields; json:"-" fields are reset first, nil and empty are identified
func roundTripDiff(a, b report.Report) string {
	norm := func(r report.Report) report.Report {
		r.AggregateProfile = nil
		vs := make([]report.Violation, len(r.Violations))
		for i, v := range r.Violations {
			v.IsAggregate = false
			if len(v.RelatedResources) == 0 {
				v.RelatedResources = nil
			}
			vs[i] = v
		}
		r.Violations = vs
		if len(r.Notices) == 0 {
			r.Notices = nil
		}
		if len(r.Profile) == 0 {
			r.Profile = nil
		}
		// free-form payloads: compare their JSON renderings
		r.Aggregates, r.Metrics, r.IgnoreDirectives = nil, nil, nil
		return r
	}
	x, y := norm(a), norm(b)
	if !reflect.DeepEqual(x, y) {
		for i := range x.Violations {
			if i >= len(y.Violations) || !reflect.DeepEqual(x.Violations[i], y.Violations[i]) {
				return fmt.Sprintf("violation %d differs", i)
			}
		}
		return "reports differ outside the violations"
	}
	for _, p := range [][2]any{{a.Aggregates, b.Aggregates}, {a.Metrics, b.Metrics}, {a.IgnoreDirectives, b.IgnoreDirectives}} {
		ja, _ := json.Marshal(p[0])
		jb, _ := json.Marshal(p[1])
		if reflect.ValueOf(p[0]).Len() == 0 && reflect.ValueOf(p[1]).Len() == 0 {
			continue
		}
		if string(ja) != string(jb) {
			return "payload differs: " + head(string(ja)) + " vs " + head(string(jb))
		}
	}
	return ""
}

func runCase(c *Case) {
	r := toReal(&c.Report)
	color.NoColor = c.NoColor
	os.Unsetenv("GITHUB_STEP_SUMMARY")
	os.Setenv("CI", "1")
	c.Docs = map[string]any{}
	c.Pred = map[string]any{}
	for _, f := range formats {
		var buf bytes.Buffer
		if err := newReporter(f, &buf).Publish(context.Background(), r); err != nil {
			c.Docs[f] = errDoc(err, buf.String())
			c.Pred[f] = pred{false, "Publish failed: " + err.Error()}
			continue
		}
		d, p := parseOutput(f, c.NoColor, buf.String(), &r)
		c.Docs[f] = d
		c.Pred[f] = p
	}
	c.Q = nil
	for i, v := range r.Violations {
		if i >= 6 {
			break
		}
		t := "<nil>"
		if v.Location.Text != nil {
			t = fmt.Sprintf("%q", *v.Location.Text)
		}
		c.Q = append(c.Q, fmt.Sprintf("%s/%s %s %q %q:%d:%d text=%s", v.Category, v.Title, v.Level, v.Description, v.Location.File, v.Location.Row, v.Location.Column, t))
	}
}

// ---------------------------------------------------------------- generators

var titles = []string{"opa-fmt", "use-assignment-operator", "line-length", "prefer-snake-case", "unresolved-import",
	"no-whitespace-comment", "custom_rule-1", "todo-comment", "directory-package-mismatch", "rule.with.dots"}
var cats = []string{"style", "bugs", "imports", "custom", "idiomatic", "testing"}
var fileNames = []string{"a.rego", "b.rego", "dir/c.rego", "a b.rego", "ü/ñ.rego", "x&y<z>.rego", "p/q/r.rego", "/abs/p.rego",
	"C:\\w\\p.rego", "a.rego.bak", "A.rego", "it's \"q\".rego", "policy_test.rego", "ab.rego", "a,b.rego", "p%2Cq.rego", "50%.rego",
	"k=v.rego"}
var descs = []string{
	"Rego must not break the law!", "Questionable decision found", "File should be formatted with `opa fmt`",
	"Use := for assignment", "Line too long", "a <b> & \"c\" 'd' </failure>", "back\\slash \\n and / slash",
	"unicode: ünï©ödé ✓ 日本語 🙂", "ANSI \x1b[31mred\x1b[0m text", "two  spaces   three", "trailing space ",
	"percent %0A %d %s ::", "]]> cdata end", "<![CDATA[x]]>", "{\"json\": [1, 2]}", "tab\there",
	"A rather long description that goes on and on so that the compact reporter has to wrap it over several lines of its eighty column table, does it?",
	"Averyveryveryveryveryveryveryveryveryveryveryveryveryveryveryveryveryveryveryveryveryveryverylongwordwithoutanyspaces and more",
	"x",
}
var textSpecials = []string{
	"package illegal", "default allow = true", "\tx := input.y  # comment", "  allow if { input.x == \"<a href='y'>&amp;</a>\" }  ",
	"x := \"]]>\"", "# \x1b[31mcoloured\x1b[0m comment", "# bell \x07 and form feed \x0c", "s := \"\\u00e9 \\\" \\\\\"",
	"\u00a0 nbsp around \u00a0", "\u3000ideographic space\u2028", "y := `raw {\"json\": true}`\r", "", " ", "日本語のコメント 🙂🙂",
	"a := 1 # \ufffe noncharacter", "::error file=x::y", "%0A%0D",
}
var urls = []string{"https://docs.styra.com/regal/rules/style/opa-fmt", "https://example.com/illegal?a=1&b=<2>", "", "https://x/y#z"}
var sevs = []string{"none", "warning", "error", "none", ""}

func pick(rng *hutil.Rng, xs []string) string { return xs[rng.Below(len(xs))] }

var multi = []string{"é", "ü", "日", "✓", "🙂", "\u00a0", "𝔘"}

func genText(rng *hutil.Rng) *H {
	var s string
	switch k := rng.Below(12); {
	case k == 0:
		return nil
	case k <= 4:
		s = pick(rng, textSpecials)
	case k == 5: // lengths around the cut
		s = strings.Repeat("x", 114+rng.Below(8))
	case k <= 8: // a multi-byte rune straddling byte 117
		s = strings.Repeat("a", 113+rng.Below(5)) + pick(rng, multi) + pick(rng, multi) + strings.Repeat("b", rng.Below(4))
	case k == 9: // long lines of mixed content
		for len(s) < 150+rng.Below(80) {
			if rng.Below(4) == 0 {
				s += pick(rng, multi)
			} else {
				s += string(rune('a' + rng.Below(26)))
			}
			if rng.Below(9) == 0 {
				s += " "
			}
		}
	case k == 10: // 200-character lines with specials and leading tabs
		s = "\t\t" + strings.Repeat("<&>\"' ", 33) + "\x1b[0m"
	default:
		s = strings.Repeat(pick(rng, multi), 20+rng.Below(60))
	}
	h := hx(s)
	return &h
}

func genViolation(rng *hutil.Rng, files []string, oddLevels bool) CViolation {
	v := CViolation{Title: hx(pick(rng, titles)), Cat: hx(pick(rng, cats)), Desc: hx(pick(rng, descs)), Related: []CRel{}}
	switch k := rng.Below(10); {
	case k < 5:
		v.Level = hx("error")
	case k < 9 || !oddLevels:
		v.Level = hx("warning")
	default:
		v.Level = hx(pick(rng, []string{"", "info", "Error", "WARNING"}))
	}
	switch rng.Below(6) {
	case 0:
	case 1:
		v.Related = []CRel{{hx("other"), hx("https://other")}, {hx("documentation"), hx(pick(rng, urls))}}
	case 2:
		v.Related = []CRel{{hx("documentation"), hx(pick(rng, urls))}, {hx("documentation"), hx("https://second")}}
	default:
		v.Related = []CRel{{hx("documentation"), hx(pick(rng, urls))}}
	}
	v.Loc.File = hx(pick(rng, files))
	if rng.Below(6) == 0 { // aggregate violation without a position
		v.IsAgg = true
		if rng.Bool() {
			v.Loc.Text = genText(rng)
		}
		return v
	}
	v.Loc.Row = 1 + rng.Below(300)
	v.Loc.Col = 1 + rng.Below(120)
	if rng.Below(3) == 0 {
		v.Loc.Row = 1 + rng.Below(3) // collisions: same position, different rules
		v.Loc.Col = 1
	}
	v.Loc.Text = genText(rng)
	switch rng.Below(3) {
	case 0:
		v.Loc.End = &[2]int{v.Loc.Row, v.Loc.Col + rng.Below(30)}
	case 1:
		v.Loc.End = &[2]int{v.Loc.Row + 1 + rng.Below(5), 1 + rng.Below(40)}
	}
	if rng.Below(4) == 0 {
		v.Loc.Offset = rng.Below(5000)
	}
	return v
}

func genReport(rng *hutil.Rng, nViol int, oddLevels bool) CReport {
	var r CReport
	nf := 1 + rng.Below(4)
	var files []string
	for i := 0; i < nf; i++ {
		files = append(files, pick(rng, fileNames))
	}
	r.Violations = []CViolation{}
	for i := 0; i < nViol; i++ {
		v := genViolation(rng, files, oddLevels)
		if i > 0 && rng.Below(8) == 0 { // exact duplicate of an earlier violation
			v = r.Violations[rng.Below(i)]
		}
		r.Violations = append(r.Violations, v)
	}
	r.Notices = []CNotice{}
	nn := 0
	if rng.Below(3) == 0 {
		nn = 1 + rng.Below(3)
	}
	for i := 0; i < nn; i++ {
		r.Notices = append(r.Notices, CNotice{Title: hx(pick(rng, titles)), Desc: hx(pick(rng, descs)), Cat: hx(pick(rng, cats)),
			Level: hx("notice"), Sev: hx(pick(rng, sevs))})
	}
	failed := map[string]bool{}
	for _, v := range r.Violations {
		failed[v.Loc.File] = true
	}
	r.Summary = [4]int{len(failed) + rng.Below(3), len(failed), 0, nViol}
	if nn > 0 && rng.Below(4) != 0 {
		r.Summary[2] = nn
	}
	switch rng.Below(12) { // summaries the linter would not build but the reporters accept
	case 0:
		r.Summary = [4]int{rng.Below(3), rng.Below(3), rng.Below(3), rng.Below(3)}
	case 1:
		r.Summary[0] = 1
	}
	if rng.Below(7) == 0 {
		r.Aggregates, r.Metrics, r.Ignore, r.Profile = rng.Below(3), rng.Below(3), rng.Below(3), rng.Below(3)
		r.AggProfile = rng.Bool()
	}
	return r
}

func fixedCases() []Case {
	h := func(s string) *H { x := hx(s); return &x }
	doc := []CRel{{hx("documentation"), hx("https://example.com/illegal")}}
	v := func(title, level, file string, row, col int, text *H) CViolation {
		return CViolation{Title: hx(title), Desc: hx("Rego must not break the law!"), Cat: hx("legal"), Level: hx(level),
			Related: doc, Loc: CLoc{File: hx(file), Row: row, Col: col, Text: text}}
	}
	var cs []Case
	add := func(name string, nocolor bool, r CReport) {
		if r.Violations == nil {
			r.Violations = []CViolation{}
		}
		if r.Notices == nil {
			r.Notices = []CNotice{}
		}
		cs = append(cs, Case{Gen: name, NoColor: nocolor, Report: r})
	}
	add("fixed:empty", true, CReport{})
	add("fixed:one", true, CReport{Violations: []CViolation{v("breaking-the-law", "error", "a.rego", 1, 1, h("package illegal"))}, Summary: [4]int{1, 1, 0, 1}})
	add("fixed:two-in-one-file", true, CReport{Violations: []CViolation{
		v("breaking-the-law", "error", "a.rego", 1, 1, h("package illegal")),
		v("questionable-decision", "warning", "a.rego", 22, 18, h("default allow = true"))}, Summary: [4]int{1, 1, 0, 2}})
	add("fixed:three-in-one-file-colour", false, CReport{Violations: []CViolation{
		v("r1", "error", "a.rego", 1, 1, nil), v("r2", "warning", "a.rego", 2, 1, nil), v("r3", "error", "a.rego", 3, 1, nil)}, Summary: [4]int{1, 1, 0, 3}})
	add("fixed:cut-splits-rune", true, CReport{Violations: []CViolation{
		v("line-length", "error", "a.rego", 3, 1, h(strings.Repeat("é", 59)+"ab"))}, Summary: [4]int{1, 1, 0, 1}})
	add("fixed:cut-splits-4-byte-rune", false, CReport{Violations: []CViolation{
		v("line-length", "warning", "a.rego", 3, 1, h(strings.Repeat("a", 115)+"🙂🙂"))}, Summary: [4]int{1, 1, 0, 1}})
	add("fixed:control-characters", true, CReport{Violations: []CViolation{
		v("todo-comment", "error", "a.rego", 3, 1, h("# \x1b[31mTODO\x1b[0m \x0c"))}, Summary: [4]int{1, 1, 0, 1}})
	add("fixed:aggregate-and-notices", true, CReport{Violations: []CViolation{
		{Title: hx("unresolved-import"), Desc: hx("agg"), Cat: hx("imports"), Level: hx("error"), Related: []CRel{}, Loc: CLoc{File: hx("z.rego")}, IsAgg: true}},
		Notices: []CNotice{{hx("n1"), hx("nd"), hx("nc"), hx("notice"), hx("warning")}, {hx("n2"), hx("nd2"), hx("nc"), hx("notice"), hx("none")}},
		Summary: [4]int{2, 1, 2, 1}})
	add("fixed:notice-shares-rule-id", true, CReport{Violations: []CViolation{v("opa-fmt", "error", "a.rego", 1, 1, nil)},
		Notices: []CNotice{{hx("opa-fmt"), hx("skipped"), hx("style"), hx("notice"), hx("error")}}, Summary: [4]int{1, 1, 1, 1}})
	return cs
}

func generate(rng *hutil.Rng, tier string) []Case {
	cs := fixedCases()
	n := 110
	if tier == "thorough" {
		n = 4000
	}
	for i := 0; i < n; i++ {
		var nv int
		switch k := rng.Below(10); {
		case k < 6:
			nv = rng.Below(6)
		case k < 9:
			nv = 6 + rng.Below(10)
		default:
			nv = 16 + rng.Below(25)
		}
		odd := rng.Below(8) == 0
		c := Case{Gen: "random", NoColor: odd || rng.Bool(), Report: genReport(rng, nv, odd)}
		cs = append(cs, c)
	}
	return cs
}

// selfTest: every internal-consistency check must reject a document in which one of the two redundant parts was
// changed (the perturbations are made on parsed documents of a fixed report, so they do not depend on /repo's
// reporters being right beyond producing parsable output).
func selfTest() []map[string]any {
	h := func(s string) *H { x := hx(s); return &x }
	doc := []CRel{{hx("documentation"), hx("https://example.com/doc")}}
	v := func(title, level, file string, row int) CViolation {
		return CViolation{Title: hx(title), Desc: hx("description of " + title), Cat: hx("style"), Level: hx(level),
			Related: doc, Loc: CLoc{File: hx(file), Row: row, Col: 1, Text: h("some text")}}
	}
	cr := CReport{Violations: []CViolation{v("zeta-rule", "error", "b.rego", 3), v("alpha-rule", "warning", "b.rego", 1), v("zeta-rule", "error", "a.rego", 7)},
		Notices: []CNotice{{hx("skipped-rule"), hx("skipped"), hx("bugs"), hx("notice"), hx("warning")}}, Summary: [4]int{2, 2, 1, 3}}
	r := toReal(&cr)
	color.NoColor = true
	outs := map[string]string{}
	for _, f := range formats {
		var buf bytes.Buffer
		if err := newReporter(f, &buf).Publish(context.Background(), r); err != nil {
			return []map[string]any{{"name": "publish " + f, "flagged": false, "detail": err.Error()}}
		}
		outs[f] = buf.String()
	}
	var res []map[string]any
	add := func(name, before, after string) {
		res = append(res, map[string]any{"name": name, "flagged": before == "" && after != "", "clean_before": before == "", "detail": after})
	}
	if s, err := parseSarif(outs["sarif"]); err == nil && len(s.Rules) >= 2 && len(s.Results) >= 3 {
		t := s
		t.Rules = append([]SRule{}, s.Rules...)
		t.Rules[0], t.Rules[1] = t.Rules[1], t.Rules[0]
		add("sarif: two rules exchanged after the results were created", consistSarif(s), consistSarif(t))
		t = s
		t.Results = append([]SResult{}, s.Results...)
		k := len(s.Rules)
		t.Results[0].Index = &k
		add("sarif: ruleIndex past the rules", consistSarif(s), consistSarif(t))
		t = s
		t.Artifacts = s.Artifacts[:1]
		add("sarif: an artifact dropped", consistSarif(s), consistSarif(t))
		t = s
		t.Results = append([]SResult{}, s.Results...)
		z := 0
		if unhx(s.Artifacts[0]) == unhx(s.Results[2].URI) {
			z = 1
		}
		t.Results[2].ArtIndex = &z
		add("sarif: artifact index of another file", consistSarif(s), consistSarif(t))
	} else {
		add("sarif: parse", "x", "")
	}
	if j, err := parseJUnit(outs["junit"]); err == nil && len(j.Suites) == 2 {
		t := j
		t.Tests++
		add("junit: total tests attribute", consistJUnit(j), consistJUnit(t))
		t = j
		t.Suites = append([]JSuite{}, j.Suites...)
		t.Suites[0].Failures--
		add("junit: failures attribute of a suite", consistJUnit(j), consistJUnit(t))
		t = j
		t.Suites = append([]JSuite{}, j.Suites...)
		t.Suites[0].Name, t.Suites[1].Name = t.Suites[1].Name, t.Suites[0].Name
		add("junit: suite names exchanged", consistJUnit(j), consistJUnit(t))
	} else {
		add("junit: parse", "x", "")
	}
	if p, err := parsePretty(outs["pretty"], false); err == nil && len(p.Entries) == 3 {
		t := p
		t.Entries = p.Entries[:2]
		add("pretty: an entry dropped, footer kept", consistPretty(p, true), consistPretty(t, true))
		t = p
		t.Entries = append([]PEntry{}, p.Entries...)
		t.Entries[0].Level = h("warning")
		add("pretty: a level changed, footer kept", consistPretty(p, true), consistPretty(t, true))
	} else {
		add("pretty: parse", "x", "")
	}
	if c, err := parseCompact(outs["compact"]); err == nil && len(c.Rows) == 3 {
		t := c
		t.Rows = c.Rows[:2]
		add("compact: a row dropped, summary kept", consistCompact(c, true), consistCompact(t, true))
	} else {
		add("compact: parse", "x", "")
	}
	if g, err := parseGitHub(outs["github"], false); err == nil && len(g.Anns) == 3 {
		t := g
		t.Anns = append([]GAnn{}, g.Anns...)
		t.Anns[0], t.Anns[1] = t.Anns[1], t.Anns[0]
		add("github: two annotations exchanged", consistGitHub(g, true), consistGitHub(t, true))
		t = g
		t.Anns = append([]GAnn{}, g.Anns...)
		t.Anns[2].Row++
		add("github: annotation line differs from the table", consistGitHub(g, true), consistGitHub(t, true))
	} else {
		add("github: parse", "x", "")
	}
	var back report.Report
	if err := json.Unmarshal([]byte(outs["json"]), &back); err == nil {
		t := back
		t.Summary.NumViolations++
		add("json: num_violations", consistJSON(back), consistJSON(t))
		t = back
		t.Summary.FilesFailed = 1
		add("json: files_failed", consistJSON(back), consistJSON(t))
	} else {
		add("json: parse", "x", "")
	}
	return res
}

func main() {
	if len(os.Args) < 2 {
		fmt.Fprintln(os.Stderr, "usage: c10 gen|replay|parse ...")
		os.Exit(2)
	}
	switch os.Args[1] {
	case "gen":
		out := hutil.NewOut(os.Args[2])
		defer out.Close()
		rng := hutil.NewRng(hutil.SeedFromEnv())
		var cs []Case
		if len(os.Args) > 4 { // corpus directory: stored cases first
			ents, _ := os.ReadDir(os.Args[4])
			for _, e := range ents {
				if strings.HasSuffix(e.Name(), ".json") {
					b, err := os.ReadFile(os.Args[4] + "/" + e.Name())
					if err != nil {
						panic(err)
					}
					var c Case
					if err := json.Unmarshal(b, &c); err != nil {
						panic(fmt.Errorf("%s: %w", e.Name(), err))
					}
					c.Gen = "corpus:" + e.Name()
					cs = append(cs, c)
				}
			}
		}
		cs = append(cs, generate(rng, os.Args[3])...)
		for i := range cs {
			cs[i].ID = i
			runCase(&cs[i])
			out.Emit(cs[i])
		}
	case "replay":
		b, err := os.ReadFile(os.Args[2])
		if err != nil {
			panic(err)
		}
		var c Case
		if err := json.Unmarshal(b, &c); err != nil {
			panic(err)
		}
		out := hutil.NewOut(os.Args[3])
		defer out.Close()
		runCase(&c)
		out.Emit(c)
	case "selftest":
		json.NewEncoder(os.Stdout).Encode(selfTest())
	case "parse":
		b, err := os.ReadFile(os.Args[4])
		if err != nil {
			panic(err)
		}
		d, p := parseOutput(os.Args[2], os.Args[3] == "true", string(b), nil)
		enc := json.NewEncoder(os.Stdout)
		enc.Encode(map[string]any{"doc": d, "pred": p})
	case "parsebatch": // manifest: [{"format":..., "file":...}], one result per line on stdout
		b, err := os.ReadFile(os.Args[2])
		if err != nil {
			panic(err)
		}
		var items []struct {
			Format string `json:"format"`
			File   string `json:"file"`
		}
		if err := json.Unmarshal(b, &items); err != nil {
			panic(err)
		}
		enc := json.NewEncoder(os.Stdout)
		for _, it := range items {
			ob, err := os.ReadFile(it.File)
			if err != nil {
				panic(err)
			}
			d, p := parseOutput(it.Format, true, string(ob), nil)
			enc.Encode(map[string]any{"doc": d, "pred": p})
		}
	case "checkbatch": // manifest: [{"format","file","report"}]: does the output in file present every violation of the
		// report (a --format json output) exactly once?  one {"ok","detail","bytes"} per line on stdout
		b, err := os.ReadFile(os.Args[2])
		if err != nil {
			panic(err)
		}
		var items []struct {
			Format string `json:"format"`
			File   string `json:"file"`
			Report string `json:"report"`
		}
		if err := json.Unmarshal(b, &items); err != nil {
			panic(err)
		}
		reports := map[string]*report.Report{}
		enc := json.NewEncoder(os.Stdout)
		for _, it := range items {
			r, ok := reports[it.Report]
			if !ok {
				rb, err := os.ReadFile(it.Report)
				if err != nil {
					panic(err)
				}
				r = &report.Report{}
				if err := json.Unmarshal(rb, r); err != nil {
					panic(fmt.Sprintf("report %s: %v", it.Report, err))
				}
				reports[it.Report] = r
			}
			ob, err := os.ReadFile(it.File)
			if err != nil {
				enc.Encode(map[string]any{"ok": false, "detail": "output file cannot be read: " + err.Error(), "bytes": 0})
				continue
			}
			_, p := parseOutput(it.Format, true, string(ob), r)
			enc.Encode(map[string]any{"ok": p.OK, "detail": p.Detail, "bytes": len(ob)})
		}
	default:
		os.Exit(2)
	}
}
