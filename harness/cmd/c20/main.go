// C20 harness: runs the real rego-version lookup of /repo on generated version maps, trees and
// spellings and prints what the implementation did, one JSON object per line.
package main

import (
	"fmt"
	"os"
	"path/filepath"
	"sort"
	"strconv"
	"strings"

	"github.com/open-policy-agent/opa/v1/ast"

	"github.com/styrainc/regal/pkg/config"
	"github.com/styrainc/regal/pkg/rules"

	"verifharness/hutil"
)

func vname(v ast.RegoVersion) string {
	switch v {
	case ast.RegoV0:
		return "v0"
	case ast.RegoV1:
		return "v1"
	case ast.RegoUndefined:
		return "undef"
	case ast.RegoV0CompatV1:
		return "v0v1"
	}
	return "other"
}

func toVer(i int) ast.RegoVersion {
	if i == 0 {
		return ast.RegoV0
	}
	return ast.RegoV1
}

type kv struct {
	K string `json:"k"`
	V string `json:"v"`
}

// ---- lookup level -------------------------------------------------------------------------

var cleanKeys = []string{"", "a", "ab", "a/b", "a/b/c", "b", "abc", "a/bc", "b/a"}
var dirtyKeys = []string{"/a", "a/", "./a", "a//b", "a/./b", "/", ".", "a/../b", "//a/b/", "a/b/..", ".."}
var dirs = []string{"", "/", "/a", "/ab", "/a/b", "/a/b/c", "/abc", "/a/bc", "/b", "/b/a", "/a/c", "/c", "a", "a/b", "ab", "./a", "/a/../b", "/a//b"}
var bases = []string{"p.rego", "ab.rego"}

func lookupCases(out *hutil.Out, rng *hutil.Rng, n int, exhaustive bool) {
	emit := func(keys []string, vers []int, file string) {
		m := map[string]ast.RegoVersion{}
		var kvs []kv
		for i, k := range keys {
			if _, dup := m[k]; dup {
				continue
			}
			m[k] = toVer(vers[i])
			kvs = append(kvs, kv{k, vname(toVer(vers[i]))})
		}
		// the Go map iteration order is random: record the set of results over repetitions
		seen := map[string]bool{}
		for i := 0; i < 12; i++ {
			seen[vname(rules.RegoVersionFromVersionsMap(m, file, ast.RegoUndefined))] = true
		}
		var got []string
		for k := range seen {
			got = append(got, k)
		}
		sort.Strings(got)
		out.Emit(map[string]any{"kind": "lookup", "m": kvs, "file": file, "got": got})
	}
	if exhaustive {
		// every pair of clean keys x versions x every dir
		for i, k1 := range cleanKeys {
			for j, k2 := range cleanKeys {
				if j < i {
					continue
				}
				for _, d := range dirs {
					for vv := 0; vv < 4; vv++ {
						f := d + "/" + bases[0]
						if d == "" {
							f = bases[0]
						}
						if i == j {
							if vv < 2 {
								emit([]string{k1}, []int{vv}, f)
							}
							continue
						}
						emit([]string{k1, k2}, []int{vv & 1, vv >> 1}, f)
					}
				}
			}
		}
	}
	all := append(append([]string{}, cleanKeys...), dirtyKeys...)
	for c := 0; c < n; c++ {
		nk := 1 + rng.Below(3)
		var keys []string
		var vers []int
		for i := 0; i < nk; i++ {
			if rng.Below(4) == 0 {
				keys = append(keys, hutil.Choice(rng, all))
			} else {
				keys = append(keys, hutil.Choice(rng, cleanKeys))
			}
			vers = append(vers, rng.Below(2))
		}
		d := hutil.Choice(rng, dirs)
		f := d + "/" + hutil.Choice(rng, bases)
		if d == "" {
			f = hutil.Choice(rng, bases)
		}
		emit(keys, vers, f)
	}
}

// ---- InputFromMap (fixer / language-server fix path): several files in one call ----------------

var mapFiles = []string{"/p.rego", "/a/p.rego", "/a/b/p.rego", "/ab/p.rego", "/b/p.rego", "/c/d/p.rego", "/b/a/p.rego"}

func fromMapCases(out *hutil.Out, rng *hutil.Rng, n int) {
	for c := 0; c < n; c++ {
		nk := 1 + rng.Below(3)
		m := map[string]ast.RegoVersion{}
		var kvs []kv
		for i := 0; i < nk; i++ {
			k := hutil.Choice(rng, cleanKeys)
			if c%3 == 0 && k == "" {
				continue // often no project-wide version: files outside every versioned directory exist
			}
			if _, dup := m[k]; dup {
				continue
			}
			v := toVer(rng.Below(2))
			m[k] = v
			kvs = append(kvs, kv{k, vname(v)})
		}
		nf := 2 + rng.Below(len(mapFiles)-1)
		names := append([]string{}, mapFiles...)
		hutil.Shuffle(rng, names)
		names = names[:nf]
		files := map[string]string{}
		for _, f := range names {
			files[f] = contents["both"]
		}
		got := map[string][]string{}
		seen := map[string]map[string]bool{}
		// Go map iteration order is random: repeat and record every version observed per file
		for r := 0; r < 10; r++ {
			in, err := rules.InputFromMap(files, m)
			for _, f := range names {
				if seen[f] == nil {
					seen[f] = map[string]bool{}
				}
				if err != nil {
					seen[f]["error"] = true
					continue
				}
				seen[f][vname(in.Modules[f].RegoVersion())] = true
			}
		}
		for f, s := range seen {
			for v := range s {
				got[f] = append(got[f], v)
			}
			sort.Strings(got[f])
		}
		sort.Strings(names)
		out.Emit(map[string]any{"kind": "frommap", "m": kvs, "files": names, "got": got})
	}
}

// ---- tree level ---------------------------------------------------------------------------

var contents = map[string]string{
	"both":   "package p\n\nx := 1\n",
	"v0only": "package p\n\nallow { input.x }\n",
	"v1only": "package p\n\nallow if input.x\n",
}

var treeDirs = []string{"", "a", "ab", "a/b", "b"}

type src struct {
	Dir string `json:"dir"`
	Ver *int   `json:"ver"` // nil: a root without rego-version / a .manifest without rego_version
}

func treeCase(out *hutil.Out, id int, manifests []src, project *int, roots []src, tmp string) {
	root := filepath.Join(tmp, "ws"+strconv.Itoa(id))
	must(os.MkdirAll(root, 0o755))
	defer os.RemoveAll(root)
	type fileT struct{ rel, kind string }
	var files []fileT
	kinds := []string{"both", "v0only", "v1only"}
	for _, d := range treeDirs {
		must(os.MkdirAll(filepath.Join(root, d), 0o755))
		for _, k := range kinds {
			rel := filepath.Join(d, k+".rego")
			must(os.WriteFile(filepath.Join(root, rel), []byte(contents[k]), 0o644))
			files = append(files, fileT{rel, k})
		}
	}
	for _, m := range manifests {
		body := `{"revision": "x"}`
		if m.Ver != nil {
			body = fmt.Sprintf(`{"rego_version": %d}`, *m.Ver)
		}
		must(os.WriteFile(filepath.Join(root, m.Dir, ".manifest"), []byte(body), 0o644))
	}
	conf := config.Config{}
	if project != nil || len(roots) > 0 {
		conf.Project = &config.Project{RegoVersion: project}
		if len(roots) > 0 {
			rs := []config.Root{}
			for _, r := range roots {
				rs = append(rs, config.Root{Path: r.Dir, RegoVersion: r.Ver})
			}
			conf.Project.Roots = &rs
		}
	}
	vm, err := config.AllRegoVersions(root, &conf)
	if err != nil {
		out.Emit(map[string]any{"kind": "tree", "id": id, "error": err.Error()})
		return
	}
	var kvs []kv
	for k, v := range vm {
		kvs = append(kvs, kv{k, vname(v)})
	}
	sort.Slice(kvs, func(i, j int) bool { return kvs[i].K < kvs[j].K })

	type obs struct {
		File     string `json:"file"`
		Kind     string `json:"kind"`
		Spelling string `json:"spelling"`
		Arg      string `json:"arg"`
		Cwd      string `json:"cwd"`
		Got      string `json:"got"`
		Root     string `json:"root"`
	}
	var observations []obs
	observe := func(f fileT, spelling, cwd, arg string) {
		must(os.Chdir(cwd))
		in, err := rules.InputFromPaths([]string{arg}, root, vm)
		got := "error"
		if err == nil {
			for _, m := range in.Modules {
				got = vname(m.RegoVersion())
			}
		}
		rc, _ := filepath.Rel(root, cwd)
		observations = append(observations, obs{f.rel, f.kind, spelling, arg, rc, got, root})
	}
	for _, f := range files {
		abs := filepath.Join(root, f.rel)
		observe(f, "abs", root, abs)
		observe(f, "rel-root", root, f.rel)
		observe(f, "rel-dot", root, "./"+f.rel)
		// from the file's own directory
		d := filepath.Dir(abs)
		observe(f, "rel-dir", d, filepath.Base(abs))
		if d != root {
			// from the parent of the file's directory
			pd := filepath.Dir(d)
			r, _ := filepath.Rel(pd, abs)
			observe(f, "rel-parent", pd, r)
		}
	}
	must(os.Chdir(tmp))
	out.Emit(map[string]any{"kind": "tree", "id": id, "manifests": manifests, "project": project,
		"roots": roots, "vmap": kvs, "obs": observations})
}

// optVer: version 0, 1 or (one time in four) none configured
func optVer(rng *hutil.Rng) *int {
	switch rng.Below(8) {
	case 0, 1:
		return nil
	case 2, 3, 4:
		z := 0
		return &z
	}
	o := 1
	return &o
}

func must(err error) {
	if err != nil {
		panic(err)
	}
}

func main() {
	if len(os.Args) < 4 {
		fmt.Fprintln(os.Stderr, "usage: c20 <out.jsonl> <tier> <tmpdir>")
		os.Exit(2)
	}
	out := hutil.NewOut(os.Args[1])
	defer out.Close()
	tier := os.Args[2]
	tmp := os.Args[3]
	rng := hutil.NewRng(hutil.SeedFromEnv())

	nLookup, nTree := 400, 60
	if tier == "thorough" {
		nLookup, nTree = 6000, 600
	}
	lookupCases(out, rng, nLookup, true)
	fromMapCases(out, rng, nLookup/4)

	// fixed, always-run trees (the corpus): sibling prefix, nested roots, root manifest vs project
	zero, one := 0, 1
	id := 0
	fixed := []struct {
		m []src
		p *int
		r []src
	}{
		{nil, nil, []src{{"a", &zero}}},
		{nil, &zero, []src{{"a", &one}, {"a/b", &zero}}},
		{[]src{{"a", &zero}}, nil, []src{{"a", &one}}},
		{[]src{{"", &zero}}, &one, nil},
		{[]src{{"a", &zero}, {"ab", &one}}, &one, []src{{"b", &zero}}},
		{[]src{{"a/b", &zero}}, &one, []src{{"a", &one}}},
		// roots / manifests that configure no version must not mask an outer version
		{nil, &zero, []src{{"a", nil}}},
		{[]src{{"a", &zero}}, nil, []src{{"a", nil}}},
		{[]src{{"a", nil}}, &zero, []src{{"a/b", nil}, {"b", &one}}},
	}
	for _, c := range fixed {
		treeCase(out, id, c.m, c.p, c.r, tmp)
		id++
	}
	for i := 0; i < nTree; i++ {
		var ms, rs []src
		for _, d := range treeDirs {
			if rng.Below(4) == 0 {
				ms = append(ms, src{d, optVer(rng)})
			}
			if d != "" && rng.Below(3) == 0 {
				dd := d
				if rng.Below(6) == 0 {
					dd = strings.TrimSuffix(d, "/") + "/"
				}
				rs = append(rs, src{dd, optVer(rng)})
			}
		}
		var p *int
		switch rng.Below(3) {
		case 0:
			p = &zero
		case 1:
			p = &one
		}
		treeCase(out, id, ms, p, rs, tmp)
		id++
	}
}
