// C08 harness: lints documented Avoid / Prefer examples (and fixtures) with ONLY the documented rule enabled,
// under layout-preserving re-embeddings of the text, through the public linter API of the regal tree the harness is
// built against. The embeddings are implemented here on the *text* with strings functions (independent of the Coq
// model Model/Layout.v, which works on the line table); tools/props/c08.py compares both.
//
// usage: c08 <cases.json> <out.jsonl> <quick|thorough|replay>
//
// cases.json: [{"id","category","rule","label":"avoid"|"prefer","files":[{"name","text"}],"config_yaml":"",
//
//	"embed":"all"|"none"|"nocrlf,noblank,notop,noappend,maxblank<N>" (exclusions), "batch":bool,
//	"embeddings":[["P3","C"],...] (replay: exactly these embeddings),
//	"shift_targets":[9,99], "shift_rows":"all"|"nonblank" (boundary shifts, see below)}]
//
// out.jsonl : one object per (case, embedding):
//
//	  {"id","emb":[ops],"mode":"single"|"batch","texts":{name:text},"violations":[{title,category,file,row,
//	   col,erow,ecol,text,has_text}],"notices":[...],"error":"","batch_size":n}
//	or {"id","emb","mode":"dup","dup_of":[ops]} when the texts equal those of an earlier embedding
//	(the operations commute: Props/C08.v c08_reordering_commutable_ops) and no lint of its own is run.
//
// Embedding ops: "P<k>" k blank lines after the package line, "T<k>" k blank lines at the top, "C" CRLF line ends,
// "A" append a blank line and an unrelated rule (numbered per occurrence); "F<k>" the same with an unrelated function of k arguments.
//
// Boundary shifts (Model/Layout.v boundary_shifts): on top of the embeddings of the tier every case is linted under
// "T<k>" for every k = t - r, r a row (any row, or any non-blank row) of one of its files, t a target row (9, 99,
// 999: the last row before row numbers get one more digit), so that every pair of rows of the example is put on the
// two sides of such a boundary by some embedding. Their results carry "shift":true and, instead of the text,
// "digests": {name: {"len","hash"}} (63-bit multiplicative digest, recomputed from the model's text in Coq).
package main

import (
	"context"
	"encoding/json"
	"fmt"
	"os"
	"runtime"
	"sort"
	"strconv"
	"strings"
	"sync"

	"gopkg.in/yaml.v3"

	"github.com/styrainc/regal/pkg/config"
	"github.com/styrainc/regal/pkg/linter"
	"github.com/styrainc/regal/pkg/rules"

	"verifharness/hutil"
)

type File struct {
	Name string `json:"name"`
	Text string `json:"text"`
}

type Case struct {
	ID         int        `json:"id"`
	Category   string     `json:"category"`
	Rule       string     `json:"rule"`
	Label      string     `json:"label"`
	Files      []File     `json:"files"`
	ConfigYAML string     `json:"config_yaml"`
	Embed      string     `json:"embed"` // "all" | "none" | "nocrlf" | "noblank" | "noappend" (comma separated exclusions)
	Batch      bool       `json:"batch"`
	Embeddings [][]string `json:"embeddings,omitempty"`
	// boundary shifts: target rows and which rows of the example are put there ("all" | "nonblank")
	ShiftTargets []int  `json:"shift_targets,omitempty"`
	ShiftRows    string `json:"shift_rows,omitempty"`
}

type Digest struct {
	Len  int    `json:"len"`
	Hash uint64 `json:"hash"`
}

type Viol struct {
	Title    string `json:"title"`
	Category string `json:"category"`
	File     string `json:"file"`
	Row      int    `json:"row"`
	Col      int    `json:"col"`
	ERow     int    `json:"erow"`
	ECol     int    `json:"ecol"`
	Text     string `json:"text"`
	HasText  bool   `json:"has_text"`
}

type Result struct {
	ID         int               `json:"id"`
	Emb        []string          `json:"emb"`
	Mode       string            `json:"mode"`
	Texts      map[string]string `json:"texts,omitempty"`
	Violations []Viol            `json:"violations"`
	Notices    []string          `json:"notices"`
	Error      string            `json:"error"`
	BatchSize  int               `json:"batch_size,omitempty"`
	Shift      bool              `json:"shift,omitempty"`
	Digests    map[string]Digest `json:"digests,omitempty"`
	ShiftsUsed []int             `json:"shifts_used,omitempty"` // identity result only: the shift amounts of this case
}

// ---- the transformation grammar on text -------------------------------------------------------

func eolOf(t string) string {
	if strings.Contains(t, "\r\n") {
		return "\r\n"
	}
	return "\n"
}

// blank lines after the line holding the package clause (first line starting with "package "); at the top when
// there is none
func blankAfterPackage(t string, k int) string {
	eol := eolOf(t)
	pos := 0
	for {
		if strings.HasPrefix(t[pos:], "package ") {
			break
		}
		nl := strings.IndexByte(t[pos:], '\n')
		if nl < 0 {
			return strings.Repeat(eol, k) + t // no package line
		}
		pos += nl + 1
	}
	nl := strings.IndexByte(t[pos:], '\n')
	if nl < 0 {
		return t + strings.Repeat(eol, k)
	}
	at := pos + nl + 1
	return t[:at] + strings.Repeat(eol, k) + t[at:]
}

func blankAtTop(t string, k int) string { return strings.Repeat(eolOf(t), k) + t }

func toCRLF(t string) string {
	return strings.ReplaceAll(strings.ReplaceAll(t, "\r\n", "\n"), "\n", "\r\n")
}

func unrelatedRule(n int) string {
	return "zz_verif_unrelated_" + strconv.Itoa(n) + " := " + strconv.Itoa(n)
}

// blank line, an unrelated rule, final line end
func appendRule(t string, n int) string {
	eol := eolOf(t)
	return t + eol + eol + unrelatedRule(n) + eol
}

// an unrelated function of k arguments that uses every argument: zz_verif_unrelated_<n>(a1, .., ak) := [a1, .., ak]
// (rules that look at all functions of a module, their arities or their argument names see a different population)
func unrelatedFunc(n, k int) string {
	args := make([]string, k)
	for i := range args {
		args[i] = "zz_" + string(rune('a'+i)) // letters only: naming conventions of the fixtures forbid digits
	}
	a := strings.Join(args, ", ")
	return "zz_verif_unrelated_" + strconv.Itoa(n) + "(" + a + ") := [" + a + "]"
}

func appendFunc(t string, n, k int) string {
	eol := eolOf(t)
	return t + eol + eol + unrelatedFunc(n, k) + eol
}

// ops: "P<k>" blank lines after package, "T<k>" blank lines at top, "C" CRLF, "A" append unrelated rule
func applyOps(t string, ops []string) string {
	n := 0
	for _, op := range ops {
		switch op[0] {
		case 'P':
			k, _ := strconv.Atoi(op[1:])
			t = blankAfterPackage(t, k)
		case 'T':
			k, _ := strconv.Atoi(op[1:])
			t = blankAtTop(t, k)
		case 'C':
			t = toCRLF(t)
		case 'A':
			n++
			t = appendRule(t, n)
		case 'F':
			n++
			k, _ := strconv.Atoi(op[1:])
			t = appendFunc(t, n, k)
		}
	}
	return t
}

func embeddings(tier string) [][]string {
	single := [][]string{{"P3"}, {"C"}, {"A"}, {"F1"}, {"F3"}}
	out := [][]string{{}}
	if tier == "quick" {
		// P9: the package clause stays on its single-digit row, every row after it goes to row 11 or beyond (the
		// boundary shifts T<k> move the package clause along; the thorough tier has P10 for this)
		return append(append(out, single...), []string{"P9"})
	}
	alpha := []string{"P1", "P3", "P10", "T1", "C", "A"}
	for _, a := range alpha {
		out = append(out, []string{a})
	}
	for _, a := range alpha {
		for _, b := range alpha {
			out = append(out, []string{a, b})
		}
	}
	for _, a := range alpha {
		for _, b := range alpha {
			for _, c := range alpha {
				out = append(out, []string{a, b, c})
			}
		}
	}
	// the appended unrelated rule as a function of one or three arguments, alone and combined with every other operation
	for _, f := range []string{"F1", "F3"} {
		out = append(out, []string{f})
		for _, a := range alpha {
			out = append(out, []string{f, a}, []string{a, f})
		}
	}
	out = append(out, []string{"F1", "F3"}, []string{"F3", "F1"})
	return out
}

// 63-bit multiplicative digest, Base/Packed.v digest: h <- h * 1099511628211 + (byte + 1) mod 2^63
func hashText(t string) uint64 {
	const mask = uint64(1)<<63 - 1
	h := uint64(1469598103934665603)
	for i := 0; i < len(t); i++ {
		h = (h*1099511628211 + uint64(t[i]) + 1) & mask
	}
	return h
}

// the amounts k of blank lines at the top that put a row (1-based r; every row, or every row that is not blank)
// of one of the files on a target row t: k = t - r for r <= t
func boundaryShifts(c *Case) []int {
	set := map[int]bool{}
	for _, f := range c.Files {
		lines := strings.Split(strings.ReplaceAll(f.Text, "\r\n", "\n"), "\n")
		for i, l := range lines {
			if c.ShiftRows == "nonblank" && strings.Trim(l, " \t") == "" {
				continue
			}
			for _, t := range c.ShiftTargets {
				if i+1 <= t {
					set[t-(i+1)] = true
				}
			}
		}
	}
	ks := make([]int, 0, len(set))
	for k := range set {
		ks = append(ks, k)
	}
	sort.Ints(ks)
	return ks
}

// the single transformations of the quick tier
func isQuickSingle(ops []string) bool {
	return len(ops) == 1 && (ops[0] == "P3" || ops[0] == "C" || ops[0] == "A" || ops[0] == "F1" || ops[0] == "F3")
}

func allowed(embed string, ops []string) bool {
	if embed == "" || embed == "all" {
		return true
	}
	if embed == "none" {
		return len(ops) == 0
	}
	for _, ex := range strings.Split(embed, ",") {
		// maxblank<N>: at most N inserted blank lines in all (rules that measure the length of the file)
		if strings.HasPrefix(ex, "maxblank") {
			limit, _ := strconv.Atoi(ex[len("maxblank"):])
			total := 0
			for _, op := range ops {
				if op[0] == 'P' || op[0] == 'T' {
					k, _ := strconv.Atoi(op[1:])
					total += k
				}
			}
			if total > limit {
				return false
			}
		}
		for _, op := range ops {
			switch ex {
			case "nocrlf":
				if op == "C" {
					return false
				}
			case "noblank":
				if op[0] == 'P' || op[0] == 'T' {
					return false
				}
			case "notop":
				if op[0] == 'T' {
					return false
				}
			case "noappend":
				if op == "A" || op[0] == 'F' {
					return false
				}
			}
		}
	}
	return true
}

// ---- linting ------------------------------------------------------------------------------------

func lintFiles(c *Case, files map[string]string) (vs []Viol, notices []string, err error) {
	defer func() {
		if r := recover(); r != nil {
			err = fmt.Errorf("panic: %v", r)
		}
	}()
	in, e := rules.InputFromMap(files, nil)
	if e != nil {
		return nil, nil, fmt.Errorf("parse: %w", e)
	}
	l := linter.NewLinter().WithDisableAll(true).WithEnabledRules(c.Rule).WithInputModules(&in)
	if c.ConfigYAML != "" {
		var conf config.Config
		if e := yaml.Unmarshal([]byte(c.ConfigYAML), &conf); e != nil {
			return nil, nil, fmt.Errorf("config: %w", e)
		}
		l = l.WithUserConfig(conf)
	}
	rep, e := l.Lint(context.Background())
	if e != nil {
		return nil, nil, fmt.Errorf("lint: %w", e)
	}
	for _, v := range rep.Violations {
		x := Viol{Title: v.Title, Category: v.Category, File: v.Location.File, Row: v.Location.Row, Col: v.Location.Column}
		if v.Location.End != nil {
			x.ERow, x.ECol = v.Location.End.Row, v.Location.End.Column
		}
		if v.Location.Text != nil {
			x.Text, x.HasText = *v.Location.Text, true
		}
		vs = append(vs, x)
	}
	sort.Slice(vs, func(i, j int) bool {
		a, b := vs[i], vs[j]
		if a.File != b.File {
			return a.File < b.File
		}
		if a.Row != b.Row {
			return a.Row < b.Row
		}
		if a.Col != b.Col {
			return a.Col < b.Col
		}
		if a.Title != b.Title {
			return a.Title < b.Title
		}
		return a.Text < b.Text
	})
	for _, n := range rep.Notices {
		notices = append(notices, n.Category+"/"+n.Title+": "+n.Severity)
	}
	sort.Strings(notices)
	return vs, notices, nil
}

func errString(e error) string {
	if e == nil {
		return ""
	}
	s := e.Error()
	if len(s) > 400 {
		s = s[:400]
	}
	return s
}

// one lint call: either one case under one embedding (all its files), or many (case, embedding) pairs of
// single-file cases of the same rule and configuration, each copy in a directory of its own
type item struct {
	c   *Case
	emb int // index into the case's embedding list
}

type job struct {
	items []item
	batch bool
}

type plan struct {
	c     *Case
	embs  [][]string
	texts []map[string]string // per embedding
	rep   []int               // per embedding: index of the first embedding with identical texts
	shift []bool              // per embedding: a boundary shift (not one of the embeddings of the tier)
	used  []int               // the boundary shift amounts of the case
}

func textsKey(m map[string]string) string {
	names := make([]string, 0, len(m))
	for n := range m {
		names = append(names, n)
	}
	sort.Strings(names)
	var b strings.Builder
	for _, n := range names {
		b.WriteString(n)
		b.WriteByte(0)
		b.WriteString(m[n])
		b.WriteByte(0)
	}
	return b.String()
}

func main() {
	if len(os.Args) < 4 {
		fmt.Fprintln(os.Stderr, "usage: c08 cases.json out.jsonl quick|thorough|replay")
		os.Exit(2)
	}
	raw, err := os.ReadFile(os.Args[1])
	if err != nil {
		panic(err)
	}
	var cases []Case
	if err := json.Unmarshal(raw, &cases); err != nil {
		panic(err)
	}
	tier := os.Args[3]
	_ = hutil.SeedFromEnv() // the enumeration is exhaustive over the table x grammar: nothing is drawn at random here
	embs := embeddings(tier)
	// an embedding gets a lint call of its own ("solo") when it is the identity (quick), or the identity or one
	// of P3 / C / A (thorough), and always for cases that cannot be batched; the rest is batched per rule
	soloDepth := 0
	if tier != "quick" {
		soloDepth = 1
	}
	plans := make([]*plan, len(cases))
	var jobs []job
	groups := map[string][]item{}
	var groupOrder []string
	for i := range cases {
		c := &cases[i]
		list := embs
		if tier == "replay" || len(c.Embeddings) > 0 {
			list = c.Embeddings
		}
		p := &plan{c: c}
		seen := map[string]int{}
		canBatch := c.Batch && len(c.Files) == 1 && tier != "replay"
		nTier := len(list)
		if tier != "replay" && len(c.Embeddings) == 0 && len(c.ShiftTargets) > 0 {
			have := map[string]bool{}
			for _, ops := range list {
				have[strings.Join(ops, ",")] = true
			}
			list = append([][]string{}, list...)
			nTier = len(list)
			for _, k := range boundaryShifts(c) {
				op := "T" + strconv.Itoa(k)
				if allowed(c.Embed, []string{op}) {
					p.used = append(p.used, k)
				}
				if !have[op] {
					list = append(list, []string{op})
				}
			}
		}
		for li, ops := range list {
			if !allowed(c.Embed, ops) {
				continue
			}
			// scenarios that need a lint call of their own per embedding (several files, aggregate rules,
			// path-dependent rules) go up to depth 2 only: a full Lint costs ~0.5 s of CPU
			if !canBatch && tier == "thorough" && len(ops) > 2 {
				continue
			}
			files := map[string]string{}
			for _, f := range c.Files {
				files[f.Name] = applyOps(f.Text, ops)
			}
			k := textsKey(files)
			idx := len(p.embs)
			p.embs = append(p.embs, ops)
			p.texts = append(p.texts, files)
			p.shift = append(p.shift, li >= nTier)
			if r, ok := seen[k]; ok {
				p.rep = append(p.rep, r)
				continue
			}
			seen[k] = idx
			p.rep = append(p.rep, idx)
		}
		plans[i] = p
		gk := c.Category + "/" + c.Rule + "\x00" + c.ConfigYAML
		for e := range p.embs {
			if p.rep[e] != e {
				continue
			}
			batchable := canBatch
			solo := !batchable || len(p.embs[e]) == 0 || (soloDepth == 1 && isQuickSingle(p.embs[e]))
			if solo {
				jobs = append(jobs, job{items: []item{{c, e}}})
			}
			// non-solo embeddings are batched; in the thorough tier the solo single transformations ride along
			// a second time so that batched and solo verdicts can be compared
			if batchable && (!solo || len(p.embs[e]) == 1) {
				if _, ok := groups[gk]; !ok {
					groupOrder = append(groupOrder, gk)
				}
				groups[gk] = append(groups[gk], item{c, e})
			}
		}
	}
	const chunk = 48
	for _, gk := range groupOrder {
		its := groups[gk]
		for s := 0; s < len(its); s += chunk {
			e := s + chunk
			if e > len(its) {
				e = len(its)
			}
			jobs = append(jobs, job{items: its[s:e], batch: true})
		}
	}
	// heavier jobs first
	sort.SliceStable(jobs, func(i, j int) bool { return len(jobs[i].items) > len(jobs[j].items) })

	out := hutil.NewOut(os.Args[2])
	var mu sync.Mutex
	emit := func(r Result) {
		if r.Violations == nil {
			r.Violations = []Viol{}
		}
		if r.Notices == nil {
			r.Notices = []string{}
		}
		mu.Lock()
		out.Emit(r)
		mu.Unlock()
	}
	// the text of a result, or its digest for the (many) boundary shifts
	fill := func(r *Result, p *plan, e int) {
		if len(p.embs[e]) == 0 {
			r.ShiftsUsed = p.used
		}
		if !p.shift[e] {
			r.Texts = p.texts[e]
			return
		}
		r.Shift = true
		r.Digests = map[string]Digest{}
		for n, t := range p.texts[e] {
			r.Digests[n] = Digest{Len: len(t), Hash: hashText(t)}
		}
	}
	runJob := func(j job) {
		if !j.batch {
			it := j.items[0]
			p := plans[it.c.ID]
			vs, ns, err := lintFiles(it.c, p.texts[it.emb])
			r := Result{ID: it.c.ID, Emb: p.embs[it.emb], Mode: "single", Violations: vs, Notices: ns, Error: errString(err)}
			fill(&r, p, it.emb)
			emit(r)
			return
		}
		files := map[string]string{}
		names := make([]string, len(j.items))
		for i, it := range j.items {
			names[i] = fmt.Sprintf("b%04d_%04d/%s", it.c.ID, it.emb, it.c.Files[0].Name)
			files[names[i]] = plans[it.c.ID].texts[it.emb][it.c.Files[0].Name]
		}
		vs, ns, err := lintFiles(j.items[0].c, files)
		for i, it := range j.items {
			p := plans[it.c.ID]
			r := Result{ID: it.c.ID, Emb: p.embs[it.emb], Mode: "batch", Notices: ns,
				Error: errString(err), BatchSize: len(j.items)}
			fill(&r, p, it.emb)
			for _, v := range vs {
				if v.File == names[i] {
					v.File = it.c.Files[0].Name
					r.Violations = append(r.Violations, v)
				}
			}
			emit(r)
		}
	}
	workers := runtime.GOMAXPROCS(0)
	ch := make(chan job)
	var wg sync.WaitGroup
	for w := 0; w < workers; w++ {
		wg.Add(1)
		go func() {
			defer wg.Done()
			for j := range ch {
				runJob(j)
			}
		}()
	}
	for _, j := range jobs {
		ch <- j
	}
	close(ch)
	wg.Wait()
	// embeddings whose texts equal an earlier embedding's: no lint of their own
	for _, p := range plans {
		for e := range p.embs {
			if p.rep[e] != e {
				out.Emit(map[string]any{"id": p.c.ID, "emb": p.embs[e], "mode": "dup", "dup_of": p.embs[p.rep[e]], "shift": p.shift[e]})
			}
		}
	}
	out.Close()
}
