package lsp

// Overlay test of the C16 check, server level (never added to /repo; injected with `go test -overlay`
// together with c16_test.go, whose LSP applier it uses).
//
// A real LanguageServer per profile (formatter option / workspace config) is driven over JSON-RPC the
// way an editor does: textDocument/didOpen (+ didChange) put the CLIENT's text into the server,
// then one of
//   format : textDocument/formatting                      -> result (null | [] | TextEdit[])
//   cmd    : workspace/executeCommand regal.fix.*         -> workspace/applyEdit params (command worker)
//   create : workspace/didCreateFiles for a file on disk  -> workspace/applyEdit params (template worker)
// The returned edits are applied to the text the client holds by the independent applier and
// compared with what the server intends: the oracles (formatter / fix / template run on the client's
// text by this test) and the server's own copy of the document afterwards.
//
// $VERIF_C16_SRV_IN (JSON lines) -> $VERIF_C16_SRV_OUT (JSON lines); workspaces under $VERIF_C16_SRV_WS.

import (
	"bufio"
	"context"
	"encoding/hex"
	"encoding/json"
	"errors"
	"fmt"
	"io"
	"net"
	"os"
	"path/filepath"
	"strings"
	"sync"
	"testing"
	"time"
	"unicode/utf8"

	"github.com/sourcegraph/jsonrpc2"

	"github.com/open-policy-agent/opa/v1/ast"
	"github.com/open-policy-agent/opa/v1/format"

	"github.com/styrainc/regal/internal/lsp/log"
	"github.com/styrainc/regal/internal/lsp/types"
	"github.com/styrainc/regal/internal/lsp/uri"
	"github.com/styrainc/regal/pkg/config"
	"github.com/styrainc/regal/pkg/fixer"
	"github.com/styrainc/regal/pkg/fixer/fileprovider"
	"github.com/styrainc/regal/pkg/fixer/fixes"
	"github.com/styrainc/regal/pkg/linter"
	"github.com/styrainc/regal/pkg/report"
)

type vsrvIn struct {
	ID      int     `json:"id"`
	Profile string  `json:"profile"` // default | regov1 | regalfix | unknown | config
	Dir     string  `json:"dir"`     // relative to the workspace, "" = workspace root
	File    string  `json:"file"`
	Disk    string  `json:"disk"` // "missing" | "content"
	DiskHex string  `json:"disk_hex"`
	Open    *string `json:"open"`   // hex of the text sent with didOpen (null: the document is never opened)
	Change  *string `json:"change"` // hex of the text sent with didChange afterwards (null: none)
	Op      string  `json:"op"`     // format | cmd | create
	Command string  `json:"command"`
	Char    string  `json:"char"` // location based fixes: the diagnostic points at the Nth occurrence of this byte
	Nth     int     `json:"nth"`
	// further requests on the same document of the same server, each sent after the editor applied the
	// edits of the one before it (and told the server with didChange): op format | cmd
	Then []vsrvStep `json:"then"`
}

type vsrvStep struct {
	Op      string `json:"op"`
	Command string `json:"command"`
	Char    string `json:"char"`
	Nth     int    `json:"nth"`
}

type vsrvOut struct {
	ID     int    `json:"id"`
	Fatal  string `json:"fatal,omitempty"` // harness problem (timeout, transport): the check stops
	Panic  string `json:"panic,omitempty"` // the server panicked while handling this request (recovered by the harness)
	Then   []vsrvOut `json:"then,omitempty"` // the following requests on the same document
	URI    string `json:"uri"`
	Client string `json:"client"`     // hex: the text the client holds
	HasDoc bool   `json:"has_client"` // the client sent the document (didOpen / file created)

	Class   string   `json:"class"` // edits | null | error | silent
	Err     string   `json:"err,omitempty"`
	Edits   [][5]any `json:"edits"`
	NDocs   int      `json:"ndocs"`   // text document changes in the applyEdit params
	NOther  int      `json:"nother"`  // other changes (rename / delete) in the applyEdit params
	ApplOK  bool     `json:"appl_ok"` // the independent applier could apply the edits
	ApplErr string   `json:"applerr,omitempty"`
	Applied string   `json:"applied"` // hex: client text after applying
	Sorted  bool     `json:"sorted"`
	Disj    bool     `json:"disjoint"`
	InDoc   bool     `json:"indoc"`
	Char0   bool     `json:"char0"`

	// oracles
	InRoot      bool   `json:"in_root"`
	Ignored     bool   `json:"ignored"`
	Kind        string `json:"kind"` // opa-fmt | regal-fix | unknown (formatter branch of this profile)
	TemplateOK  bool   `json:"template_ok"`
	Template    string `json:"template"` // hex
	TemplateErr string `json:"template_err,omitempty"`
	OraClass    string `json:"ora_class"` // new | none | err : formatter / fix on the client's text
	OraOut      string `json:"ora_out"`   // hex

	// the server's copy of the document (the cache the handler reads) before / after the operation
	BeforeHas bool   `json:"before_has"`
	Before    string `json:"before"`
	AfterHas  bool   `json:"after_has"`
	After     string `json:"after"`
}

type vsrvEvent struct {
	method string
	params json.RawMessage
}

type vsrv struct {
	ls      *LanguageServer
	conn    *jsonrpc2.Conn
	ws      string
	profile string

	mu     sync.Mutex
	events []vsrvEvent
	wake   chan struct{}

	cfgLoaded chan struct{}
	sentinels int

	pmu    sync.Mutex
	panics []string // panics of the server (handler, command worker, template worker), recovered here
}

func (s *vsrv) notePanic(where string, r any) {
	s.pmu.Lock()
	s.panics = append(s.panics, fmt.Sprintf("%s: %v", where, r))
	s.pmu.Unlock()
}

func (s *vsrv) takePanics() string {
	s.pmu.Lock()
	defer s.pmu.Unlock()

	out := strings.Join(s.panics, "; ")
	s.panics = nil

	return out
}

// keepAlive runs a worker loop of the server; a panic inside it (which would end the real server) is
// recorded and the loop is started again, so that one request's crash does not hide the other cases.
func (s *vsrv) keepAlive(ctx context.Context, name string, loop func(context.Context)) {
	for ctx.Err() == nil {
		func() {
			defer func() {
				if r := recover(); r != nil {
					s.notePanic(name, r)
				}
			}()

			loop(ctx)
		}()
	}
}

const vsrvTimeout = 180 * time.Second

// Handle is the editor's side: it records what the server sends and answers requests without ever
// blocking the read loop (net.Pipe is unbuffered: a reply written from the read loop can deadlock
// against the server writing at the same time).
func (s *vsrv) Handle(ctx context.Context, conn *jsonrpc2.Conn, req *jsonrpc2.Request) {
	if req.Method == methodWorkspaceApplyEdit || req.Method == "window/showMessage" {
		var p json.RawMessage
		if req.Params != nil {
			p = append(p, *req.Params...)
		}

		s.mu.Lock()
		s.events = append(s.events, vsrvEvent{req.Method, p})
		s.mu.Unlock()

		select {
		case s.wake <- struct{}{}:
		default:
		}
	}

	if !req.Notif {
		id := req.ID

		go func() {
			_ = conn.Reply(ctx, id, map[string]any{"applied": true})
		}()
	}
}

func (s *vsrv) mark() int {
	s.mu.Lock()
	defer s.mu.Unlock()

	return len(s.events)
}

// waitApplyEditFor waits for a workspace/applyEdit naming target (sent after position from) and
// returns the events recorded between from and that message.
func (s *vsrv) waitApplyEditFor(from int, target string) ([]vsrvEvent, error) {
	deadline := time.After(vsrvTimeout)
	sincePanic := 0

	for {
		s.mu.Lock()
		for i := from; i < len(s.events); i++ {
			if s.events[i].method == methodWorkspaceApplyEdit && vsrvNamesDoc(s.events[i].params, target) {
				evs := append([]vsrvEvent(nil), s.events[from:i]...)
				s.mu.Unlock()

				return evs, nil
			}
		}
		s.mu.Unlock()

		// a worker that panicked (recovered by keepAlive) sends nothing any more for the job it was on -- possibly the
		// sentinel itself: give the messages already on their way a moment, then go on with what arrived
		s.pmu.Lock()
		panicked := len(s.panics) > 0
		s.pmu.Unlock()

		if panicked {
			if sincePanic++; sincePanic > 5 {
				s.mu.Lock()
				evs := append([]vsrvEvent(nil), s.events[from:]...)
				s.mu.Unlock()

				return evs, nil
			}
		}

		select {
		case <-s.wake:
		case <-time.After(200 * time.Millisecond):
		case <-deadline:
			return nil, fmt.Errorf("timeout waiting for workspace/applyEdit for %s", target)
		}
	}
}

type vsrvApplyEdit struct {
	Edit struct {
		DocumentChanges []json.RawMessage `json:"documentChanges"`
	} `json:"edit"`
}

type vsrvDocChange struct {
	Kind         string `json:"kind"`
	TextDocument *struct {
		URI string `json:"uri"`
	} `json:"textDocument"`
	Edits []vsrvWireEdit `json:"edits"`
}

type vsrvWireEdit struct {
	NewText string `json:"newText"`
	Range   struct {
		Start struct {
			Line      uint `json:"line"`
			Character uint `json:"character"`
		} `json:"start"`
		End struct {
			Line      uint `json:"line"`
			Character uint `json:"character"`
		} `json:"end"`
	} `json:"range"`
}

func vsrvNamesDoc(params json.RawMessage, target string) bool {
	var p vsrvApplyEdit
	if json.Unmarshal(params, &p) != nil {
		return false
	}

	for _, raw := range p.Edit.DocumentChanges {
		var dc vsrvDocChange
		if json.Unmarshal(raw, &dc) == nil && dc.TextDocument != nil && dc.TextDocument.URI == target {
			return true
		}
	}

	return false
}

func vsrvToEdits(ws []vsrvWireEdit) []types.TextEdit {
	out := make([]types.TextEdit, 0, len(ws))

	for _, w := range ws {
		out = append(out, types.TextEdit{
			NewText: w.NewText,
			Range: types.Range{
				Start: types.Position{Line: w.Range.Start.Line, Character: w.Range.Start.Character},
				End:   types.Position{Line: w.Range.End.Line, Character: w.Range.End.Character},
			},
		})
	}

	return out
}

func (s *vsrv) call(ctx context.Context, method string, params any, result any) error {
	cctx, cancel := context.WithTimeout(ctx, vsrvTimeout)
	defer cancel()

	return s.conn.Call(cctx, method, params, result)
}

func vsrvConfigYAML() string {
	return "ignore:\n  files:\n    - \"ignored/**\"\nproject:\n  roots:\n    - path: v0\n      rego-version: 0\n"
}

func vsrvStart(ctx context.Context, wsRoot, profile string) (*vsrv, error) {
	ws := filepath.Join(wsRoot, profile)
	if err := os.MkdirAll(ws, 0o755); err != nil {
		return nil, err
	}

	s := &vsrv{ws: ws, profile: profile, wake: make(chan struct{}, 1), cfgLoaded: make(chan struct{}, 4)}

	if profile == "config" {
		if err := os.MkdirAll(filepath.Join(ws, ".regal"), 0o755); err != nil {
			return nil, err
		}

		if err := os.MkdirAll(filepath.Join(ws, "v0"), 0o755); err != nil {
			return nil, err
		}

		if err := os.WriteFile(filepath.Join(ws, ".regal", "config.yaml"), []byte(vsrvConfigYAML()), 0o644); err != nil {
			return nil, err
		}
	}

	var logw io.Writer = io.Discard
	if os.Getenv("VERIF_C16_SRV_LOG") != "" {
		logw = os.Stderr
	}

	ls := NewLanguageServer(ctx, &LanguageServerOptions{LogWriter: logw, LogLevel: log.LevelMessage})
	s.ls = ls

	// the diagnostics / hover workers are not part of what is observed: their queues are drained
	go func() {
		for {
			select {
			case <-ctx.Done():
				return
			case <-ls.lintFileJobs:
			case <-ls.builtinsPositionJobs:
			case j := <-ls.lintWorkspaceJobs:
				if strings.HasPrefix(j.Reason, "config file changed") {
					select {
					case s.cfgLoaded <- struct{}{}:
					default:
					}
				}
			}
		}
	}()

	go s.keepAlive(ctx, "command worker", ls.StartCommandWorker)
	go s.keepAlive(ctx, "template worker", ls.StartTemplateWorker)

	if profile == "config" {
		go ls.StartConfigWorker(ctx)
	}

	cs, cc := net.Pipe()

	go func() {
		<-ctx.Done()
		_ = cs.Close()
		_ = cc.Close()
	}()

	// the request handler runs on the connection's read loop: a panic in it is recovered here (recorded, and
	// answered with an error) instead of ending the test process
	guarded := func(ctx context.Context, conn *jsonrpc2.Conn, req *jsonrpc2.Request) (result any, err error) {
		defer func() {
			if r := recover(); r != nil {
				s.notePanic("handler "+req.Method, r)
				result, err = nil, fmt.Errorf("panic: %v", r)
			}
		}()

		return ls.Handle(ctx, conn, req)
	}

	connServer := jsonrpc2.NewConn(ctx, jsonrpc2.NewBufferedStream(cs, jsonrpc2.VSCodeObjectCodec{}), jsonrpc2.HandlerWithError(guarded))
	s.conn = jsonrpc2.NewConn(ctx, jsonrpc2.NewBufferedStream(cc, jsonrpc2.VSCodeObjectCodec{}), s)

	ls.SetConn(connServer)

	init := map[string]any{
		"rootUri":    "file://" + ws,
		"clientInfo": map[string]any{"name": "verif"},
	}

	switch profile {
	case "regov1":
		init["initializationOptions"] = map[string]any{"formatter": "opa-fmt-rego-v1"}
	case "regalfix":
		init["initializationOptions"] = map[string]any{"formatter": "regal-fix"}
	case "unknown":
		init["initializationOptions"] = map[string]any{"formatter": "prettier"}
	case "config":
		init["initializationOptions"] = map[string]any{"formatter": "opa-fmt"}
	}

	var res json.RawMessage
	if err := s.call(ctx, "initialize", init, &res); err != nil {
		return nil, fmt.Errorf("initialize: %w", err)
	}

	if err := s.call(ctx, "initialized", map[string]any{}, nil); err != nil {
		return nil, fmt.Errorf("initialized: %w", err)
	}

	if profile == "config" {
		select {
		case <-s.cfgLoaded:
		case <-time.After(vsrvTimeout):
			return nil, errors.New("timeout waiting for the workspace config to be loaded")
		}

		if cfg := ls.getLoadedConfig(); cfg == nil || len(cfg.Ignore.Files) == 0 {
			return nil, errors.New("workspace config not loaded")
		}
	}

	// sentinel document of the command worker: never formatted, so regal.fix.opa-fmt on it always
	// produces a workspace/applyEdit; commands are processed in order, so its arrival means that the
	// command before it has been dealt with
	if err := s.didOpen(ctx, s.uriOf("zzs", "cmd_sentinel.rego"), "package   zzs\n"); err != nil {
		return nil, err
	}

	return s, nil
}

func (s *vsrv) uriOf(dir, file string) string {
	return "file://" + filepath.Join(s.ws, dir, file)
}

func (s *vsrv) didOpen(ctx context.Context, u, text string) error {
	return s.call(ctx, "textDocument/didOpen", map[string]any{
		"textDocument": map[string]any{"uri": u, "languageId": "rego", "version": 1, "text": text},
	}, nil)
}

func (s *vsrv) didChange(ctx context.Context, u, text string) error {
	return s.call(ctx, "textDocument/didChange", map[string]any{
		"textDocument":   map[string]any{"uri": u, "version": 2},
		"contentChanges": []any{map[string]any{"text": text}},
	}, nil)
}

// serverCopy: the document as the handler under test reads it
func (s *vsrv) serverCopy(u string) (string, bool) {
	if s.ls.ignoreURI(u) {
		return s.ls.cache.GetIgnoredFileContents(u)
	}

	return s.ls.cache.GetFileContents(u)
}

func vsrvKind(profile string) string {
	switch profile {
	case "regalfix":
		return "regal-fix"
	case "unknown":
		return "unknown"
	default:
		return "opa-fmt"
	}
}

// vsrvFmtOracle: what the configured formatter makes of content (run by the test, outside the handler)
func (s *vsrv) fmtOracle(ctx context.Context, u, content string) (string, string) {
	switch s.profile {
	case "regalfix":
		memfp := fileprovider.NewInMemoryFileProvider(map[string]string{u: content})

		input, err := memfp.ToInput(s.ls.loadedConfigAllRegoVersions.Clone())
		if err != nil {
			return "err", ""
		}

		f := fixer.NewFixer()
		f.RegisterFixes(fixes.NewDefaultFormatterFixes()...)

		roots, err := config.GetPotentialRoots(s.ls.workspacePath(), uri.ToPath(s.ls.clientIdentifier, u))
		if err != nil {
			return "err", ""
		}

		f.RegisterRoots(roots...)

		li := linter.NewLinter().WithInputModules(&input)
		if cfg := s.ls.getLoadedConfig(); cfg != nil {
			li = li.WithUserConfig(*cfg)
		}

		rep, err := f.Fix(ctx, &li, memfp)
		if err != nil {
			return "err", ""
		}

		if rep.TotalFixes() == 0 {
			return "none", ""
		}

		out, err := memfp.Get(u)
		if err != nil {
			return "err", ""
		}

		return "new", out
	case "unknown":
		return "err", ""
	default:
		opts := format.Opts{RegoVersion: s.ls.regoVersionForURI(u)}
		if s.profile == "regov1" {
			opts.RegoVersion = ast.RegoV0CompatV1
		}

		return vsrvRunFix(&fixes.Fmt{OPAFmtOpts: opts}, s.ws, u, content, nil)
	}
}

func vsrvRunFix(fix fixes.Fix, ws, u, content string, locs []report.Location) (string, string) {
	res, err := fix.Fix(
		&fixes.FixCandidate{Filename: filepath.Base(strings.TrimPrefix(u, "file://")), Contents: content},
		&fixes.RuntimeOptions{BaseDir: ws, Locations: locs},
	)
	if err != nil {
		return "err", ""
	}

	if len(res) == 0 {
		return "none", ""
	}

	return "new", res[0].Contents
}

func vsrvFixFor(command string) fixes.Fix {
	switch command {
	case "regal.fix.opa-fmt":
		return &fixes.Fmt{OPAFmtOpts: format.Opts{}}
	case "regal.fix.use-rego-v1":
		return &fixes.Fmt{OPAFmtOpts: format.Opts{RegoVersion: ast.RegoV0CompatV1}}
	case "regal.fix.use-assignment-operator":
		return &fixes.UseAssignmentOperator{}
	case "regal.fix.no-whitespace-comment":
		return &fixes.NoWhitespaceComment{}
	case "regal.fix.non-raw-regex-pattern":
		return &fixes.NonRawRegexPattern{}
	}

	return nil
}

// vsrvLocate: 0-based line and character (in characters) of the nth occurrence of byte c
func vsrvLocate(text string, c byte, nth int) (int, int, bool) {
	seen := 0

	for li, line := range strings.Split(text, "\n") {
		for i := 0; i < len(line); i++ {
			if line[i] == c {
				if seen == nth {
					return li, utf8.RuneCountInString(line[:i]), true
				}

				seen++
			}
		}
	}

	return 0, 0, false
}

func (s *vsrv) fillEdits(o *vsrvOut, client string, edits []types.TextEdit) {
	o.Edits = make([][5]any, 0, len(edits))

	starts := verifLineStarts(client)
	last := len(starts) - 1
	maxLine := last

	if n := len(client); n > 0 && client[n-1] != '\n' && client[n-1] != '\r' {
		maxLine = last + 1
	}

	o.InDoc, o.Char0 = true, true

	for _, e := range edits {
		o.Edits = append(o.Edits, [5]any{
			e.Range.Start.Line, e.Range.Start.Character, e.Range.End.Line, e.Range.End.Character,
			hex.EncodeToString([]byte(e.NewText)),
		})

		for _, p := range []types.Position{e.Range.Start, e.Range.End} {
			if p.Line > uint(maxLine) {
				o.InDoc = false
			}

			if p.Character != 0 {
				o.Char0 = false
			}
		}
	}

	res, sorted, disj, aerr := verifApply(client, edits)
	o.Sorted, o.Disj, o.ApplErr = sorted, disj, aerr
	o.ApplOK = aerr == ""
	o.Applied = hex.EncodeToString([]byte(res))
}

func (s *vsrv) runOne(ctx context.Context, c vsrvIn) (o vsrvOut) {
	o.ID = c.ID
	o.Edits = [][5]any{}
	o.Kind = vsrvKind(s.profile)

	dir := filepath.Join(s.ws, c.Dir)
	if err := os.MkdirAll(dir, 0o755); err != nil {
		o.Fatal = err.Error()

		return o
	}

	path := filepath.Join(dir, c.File)
	u := "file://" + path
	o.URI = u
	o.InRoot = c.Dir == ""

	if c.Disk == "content" {
		b, _ := hex.DecodeString(c.DiskHex)
		if err := os.WriteFile(path, b, 0o644); err != nil {
			o.Fatal = err.Error()

			return o
		}
	} else {
		_ = os.Remove(path)
	}

	client := ""

	if c.Op == "create" {
		// a new file: the editor shows what is on disk
		b, _ := hex.DecodeString(c.DiskHex)
		client = string(b)
		o.HasDoc = c.Disk == "content"
	} else if c.Open != nil {
		b, _ := hex.DecodeString(*c.Open)
		client = string(b)
		o.HasDoc = true

		if err := s.didOpen(ctx, u, client); err != nil {
			o.Fatal = "didOpen: " + err.Error()

			return o
		}

		if c.Change != nil {
			b, _ := hex.DecodeString(*c.Change)
			client = string(b)

			if err := s.didChange(ctx, u, client); err != nil {
				o.Fatal = "didChange: " + err.Error()

				return o
			}
		}
	}

	o = s.runOp(ctx, c, dir, u, client, o)
	if o.Fatal != "" {
		return o
	}

	// the following requests: the editor applies what it got, tells the server, and asks again
	cur := o
	for _, st := range c.Then {
		if cur.Class == "edits" && cur.ApplOK {
			b, _ := hex.DecodeString(cur.Applied)
			if string(b) != client {
				client = string(b)

				if err := s.didChange(ctx, u, client); err != nil {
					o.Fatal = "didChange (after applying): " + err.Error()

					return o
				}
			}
		}

		c2 := c
		c2.Op, c2.Command, c2.Char, c2.Nth, c2.Then = st.Op, st.Command, st.Char, st.Nth, nil
		o2 := vsrvOut{ID: c.ID, Edits: [][5]any{}, Kind: o.Kind, URI: u, InRoot: o.InRoot, HasDoc: o.HasDoc}
		o2 = s.runOp(ctx, c2, dir, u, client, o2)
		o.Then = append(o.Then, o2)

		if o2.Fatal != "" {
			o.Fatal = o2.Fatal

			return o
		}

		cur = o2
	}

	return o
}

// runOp performs one request on the document u, of which the client holds the text client
func (s *vsrv) runOp(ctx context.Context, c vsrvIn, dir, u, client string, o vsrvOut) vsrvOut {
	_ = s.takePanics()

	o.Client = hex.EncodeToString([]byte(client))
	o.Ignored = s.ls.ignoreURI(u)

	// template oracle: the package path computation for this directory / file name suffix, asked for
	// an empty probe document next to the case's document
	if !o.InRoot {
		probe := "zzprobe.rego"
		if strings.HasSuffix(c.File, "_test.rego") {
			probe = "zzprobe_test.rego"
		}

		pu := "file://" + filepath.Join(dir, probe)
		s.ls.cache.SetFileContents(pu, "")

		t, err := s.ls.templateContentsForFile(pu)
		s.ls.cache.Delete(pu)

		if err != nil {
			o.TemplateErr = err.Error()
		} else {
			o.TemplateOK = true
			o.Template = hex.EncodeToString([]byte(t))
		}
	}

	var edits []types.TextEdit

	switch c.Op {
	case "format":
		o.OraClass, o.OraOut = "err", ""
		if client != "" {
			cl, out := s.fmtOracle(ctx, u, client)
			o.OraClass, o.OraOut = cl, hex.EncodeToString([]byte(out))
		}

		before, has := s.serverCopy(u)
		o.BeforeHas, o.Before = has, hex.EncodeToString([]byte(before))

		var raw json.RawMessage

		err := s.call(ctx, "textDocument/formatting", map[string]any{
			"textDocument": map[string]any{"uri": u},
			"options":      map[string]any{"tabSize": 4, "insertSpaces": false},
		}, &raw)

		var rpcErr *jsonrpc2.Error

		switch {
		case errors.As(err, &rpcErr):
			o.Class, o.Err = "error", rpcErr.Message
		case err != nil:
			o.Fatal = "formatting: " + err.Error()

			return o
		case strings.TrimSpace(string(raw)) == "null":
			o.Class = "null"
		default:
			var ws []vsrvWireEdit
			if err := json.Unmarshal(raw, &ws); err != nil {
				o.Class, o.Err = "error", "result is not a TextEdit[]: "+string(raw)
			} else {
				o.Class = "edits"
				edits = vsrvToEdits(ws)
			}
		}
	case "cmd":
		fix := vsrvFixFor(c.Command)
		args := map[string]any{"target": u}

		var locs []report.Location

		if c.Char != "" {
			line, char, _ := vsrvLocate(client, c.Char[0], c.Nth)
			args["diagnostic"] = map[string]any{
				"message": "verif", "source": "regal", "code": "verif", "severity": 2,
				"range": map[string]any{
					"start": map[string]any{"line": line, "character": char},
					"end":   map[string]any{"line": line, "character": char + 1},
				},
			}
			locs = []report.Location{{Row: line + 1, Column: char + 1, End: &report.Position{Row: line + 1, Column: char + 2}}}
		}

		o.OraClass, o.OraOut = "err", ""
		if o.HasDoc && fix != nil {
			cl, out := vsrvRunFix(fix, s.ws, u, client, locs)
			o.OraClass, o.OraOut = cl, hex.EncodeToString([]byte(out))
		}

		before, has := s.serverCopy(u)
		o.BeforeHas, o.Before = has, hex.EncodeToString([]byte(before))

		ab, _ := json.Marshal(args)
		from := s.mark()

		if err := s.call(ctx, "workspace/executeCommand", map[string]any{
			"command": c.Command, "arguments": []any{string(ab)},
		}, nil); err != nil {
			o.Fatal = "executeCommand: " + err.Error()

			return o
		}

		sentinel := s.uriOf("zzs", "cmd_sentinel.rego")
		sb, _ := json.Marshal(map[string]any{"target": sentinel})

		if err := s.call(ctx, "workspace/executeCommand", map[string]any{
			"command": "regal.fix.opa-fmt", "arguments": []any{string(sb)},
		}, nil); err != nil {
			o.Fatal = "executeCommand (sentinel): " + err.Error()

			return o
		}

		evs, err := s.waitApplyEditFor(from, sentinel)
		if err != nil {
			o.Fatal = err.Error()

			return o
		}

		o.Class = "silent"

		for _, ev := range evs {
			switch ev.method {
			case "window/showMessage":
				if o.Class == "silent" {
					o.Class, o.Err = "error", string(ev.params)
				}
			case methodWorkspaceApplyEdit:
				var p vsrvApplyEdit

				_ = json.Unmarshal(ev.params, &p)

				for _, raw := range p.Edit.DocumentChanges {
					var dc vsrvDocChange
					if json.Unmarshal(raw, &dc) != nil || dc.TextDocument == nil {
						o.NOther++

						continue
					}

					o.NDocs++

					if dc.TextDocument.URI == u {
						o.Class = "edits"
						edits = append(edits, vsrvToEdits(dc.Edits)...)
					} else {
						o.Class, o.Err = "error", "workspace/applyEdit for another document: "+dc.TextDocument.URI
					}
				}
			}
		}
	case "create":
		o.OraClass = "none"

		from := s.mark()

		err := s.call(ctx, "workspace/didCreateFiles", map[string]any{"files": []any{map[string]any{"uri": u}}}, nil)

		var rpcErr *jsonrpc2.Error

		switch {
		case errors.As(err, &rpcErr):
			o.Class, o.Err = "error", rpcErr.Message
		case err != nil:
			o.Fatal = "didCreateFiles: " + err.Error()

			return o
		}

		// what the didCreate handler loaded from disk is what the template worker is to see
		o.BeforeHas, o.Before = o.HasDoc, o.Client

		s.sentinels++
		sdir := filepath.Join(s.ws, "zzs")
		_ = os.MkdirAll(sdir, 0o755)
		sp := filepath.Join(sdir, fmt.Sprintf("new%d.rego", s.sentinels))

		if err := os.WriteFile(sp, nil, 0o644); err != nil {
			o.Fatal = err.Error()

			return o
		}

		su := "file://" + sp
		if err := s.call(ctx, "workspace/didCreateFiles", map[string]any{"files": []any{map[string]any{"uri": su}}}, nil); err != nil {
			o.Fatal = "didCreateFiles (sentinel): " + err.Error()

			return o
		}

		evs, werr := s.waitApplyEditFor(from, su)
		if werr != nil {
			o.Fatal = werr.Error()

			return o
		}

		if o.Class == "" {
			o.Class = "silent"
		}

		for _, ev := range evs {
			if ev.method != methodWorkspaceApplyEdit {
				continue
			}

			var p vsrvApplyEdit

			_ = json.Unmarshal(ev.params, &p)

			for _, raw := range p.Edit.DocumentChanges {
				var dc vsrvDocChange
				if json.Unmarshal(raw, &dc) != nil || dc.TextDocument == nil {
					o.NOther++

					continue
				}

				o.NDocs++

				if dc.TextDocument.URI == u {
					o.Class = "edits"
					edits = append(edits, vsrvToEdits(dc.Edits)...)
				}
			}
		}
	default:
		o.Fatal = "unknown op " + c.Op

		return o
	}

	after, has := s.serverCopy(u)
	o.AfterHas, o.After = has, hex.EncodeToString([]byte(after))
	o.Panic = s.takePanics()

	if o.Class == "edits" {
		s.fillEdits(&o, client, edits)
	} else {
		o.Applied = o.Client
		o.ApplOK, o.Sorted, o.Disj, o.InDoc, o.Char0 = true, true, true, true, true
	}

	return o
}

func TestVerifC16Server(t *testing.T) {
	in, out, wsRoot := os.Getenv("VERIF_C16_SRV_IN"), os.Getenv("VERIF_C16_SRV_OUT"), os.Getenv("VERIF_C16_SRV_WS")
	if in == "" || out == "" || wsRoot == "" {
		t.Skip("VERIF_C16_SRV_IN / VERIF_C16_SRV_OUT / VERIF_C16_SRV_WS not set")
	}

	t.Parallel()

	f, err := os.Open(in)
	if err != nil {
		t.Fatal(err)
	}
	defer f.Close()

	byProfile := map[string][]vsrvIn{}
	sc := bufio.NewScanner(f)
	sc.Buffer(make([]byte, 1<<20), 1<<28)

	for sc.Scan() {
		var c vsrvIn
		if err := json.Unmarshal(sc.Bytes(), &c); err != nil {
			t.Fatal(err)
		}

		byProfile[c.Profile] = append(byProfile[c.Profile], c)
	}

	ctx, cancel := context.WithCancel(context.Background())
	defer cancel()

	// results are written as they come and the case in flight is named in a journal, so that whatever
	// ends this process (a fatal error no recover can stop, a time-out) leaves the finished cases behind
	w, err := os.Create(out)
	if err != nil {
		t.Fatal(err)
	}
	defer w.Close()

	var journal *os.File
	if jp := os.Getenv("VERIF_C16_SRV_JOURNAL"); jp != "" {
		if journal, err = os.Create(jp); err != nil {
			t.Fatal(err)
		}
		defer journal.Close()
	}

	var (
		wg sync.WaitGroup
		mu sync.Mutex
	)

	emit := func(o vsrvOut) {
		b, err := json.Marshal(o)
		if err != nil {
			b, _ = json.Marshal(vsrvOut{ID: o.ID, Fatal: "cannot encode the result: " + err.Error(), Edits: [][5]any{}})
		}

		mu.Lock()
		_, _ = w.Write(append(b, '\n'))
		mu.Unlock()
	}

	for profile, cases := range byProfile {
		wg.Add(1)

		go func(profile string, cases []vsrvIn) {
			defer wg.Done()

			s, err := vsrvStart(ctx, wsRoot, profile)
			if err != nil {
				for _, c := range cases {
					emit(vsrvOut{ID: c.ID, Fatal: "server start: " + err.Error(), Edits: [][5]any{}})
				}

				return
			}

			dead := ""

			for _, c := range cases {
				if dead != "" {
					emit(vsrvOut{ID: c.ID, Fatal: dead, Edits: [][5]any{}})

					continue
				}

				if journal != nil {
					mu.Lock()
					_, _ = journal.WriteString(fmt.Sprintf("%d\n", c.ID))
					mu.Unlock()
				}

				o := s.runOne(ctx, c)
				if o.Fatal != "" {
					// after a transport problem / timeout the server's state is unknown
					dead = "after: " + o.Fatal
				}

				emit(o)
			}
		}(profile, cases)
	}

	wg.Wait()
}
