package lsp

// Overlay test of the C11 check (never added to /repo; injected with `go test -overlay`).
// The editor code actions for the three text fixes: a violation found by the linter becomes a
// diagnostic (getRangeForViolation), the client hands the diagnostic back with the command, and
// fixEditParams rebuilds the location from the diagnostic range, runs the fix on the cached
// content and turns the result into text edits.  Reads cases from $VERIF_C11_IN (JSON lines),
// writes for each the content obtained by applying the returned edits to $VERIF_C11_OUT.

import (
	"bufio"
	"context"
	"encoding/base64"
	"encoding/json"
	"fmt"
	"io"
	"os"
	"sort"
	"testing"
	"unicode/utf8"

	"github.com/styrainc/regal/internal/lsp/types"
	"github.com/styrainc/regal/pkg/fixer/fixes"
	"github.com/styrainc/regal/pkg/report"
)

type verifC11In struct {
	ID      int    `json:"id"`
	Fix     string `json:"fix"`     // uao | nwc | nrr
	Content string `json:"content"` // base64
	Row     int    `json:"row"`
	Col     int    `json:"col"`
	ERow    int    `json:"erow"`
	ECol    int    `json:"ecol"`
}

type verifC11Out struct {
	ID     int    `json:"id"`
	Status string `json:"status"` // none | changed | error | panic | badedits
	Out    string `json:"out"`    // base64
	Msg    string `json:"msg,omitempty"`
}

func verifC11LineStarts(text string) []int {
	starts := []int{0}

	for i := 0; i < len(text); i++ {
		switch text[i] {
		case '\n':
			starts = append(starts, i+1)
		case '\r':
			if i+1 < len(text) && text[i+1] == '\n' {
				continue
			}

			starts = append(starts, i+1)
		}
	}

	return starts
}

// LSP 3.17: a line past the end is the end of the document, a character past the end of the line
// is the end of the line; characters are UTF-16 code units
func verifC11Offset(text string, starts []int, p types.Position) int {
	if int(p.Line) >= len(starts) {
		return len(text)
	}

	off := starts[p.Line]
	end := len(text)

	if int(p.Line)+1 < len(starts) {
		end = starts[p.Line+1]
		for end > off && (text[end-1] == '\n' || text[end-1] == '\r') {
			end--
		}
	}

	units := uint(0)
	for off < end && units < p.Character {
		r, sz := utf8.DecodeRuneInString(text[off:])
		if r >= 0x10000 {
			units += 2
		} else {
			units++
		}

		off += sz
	}

	return off
}

func verifC11Apply(text string, edits []types.TextEdit) (string, string) {
	starts := verifC11LineStarts(text)

	type span struct {
		so, eo int
		text   string
	}

	spans := make([]span, 0, len(edits))
	for _, e := range edits {
		spans = append(spans, span{verifC11Offset(text, starts, e.Range.Start), verifC11Offset(text, starts, e.Range.End), e.NewText})
	}

	sort.SliceStable(spans, func(i, j int) bool { return spans[i].so < spans[j].so })

	pos := 0
	out := make([]byte, 0, len(text))

	for _, s := range spans {
		if s.so > s.eo || s.so < pos {
			return "", "overlapping or inverted range"
		}

		out = append(out, text[pos:s.so]...)
		out = append(out, s.text...)
		pos = s.eo
	}

	out = append(out, text[pos:]...)

	return string(out), ""
}

func verifC11RunOne(ls *LanguageServer, c verifC11In) (o verifC11Out) {
	o.ID = c.ID

	defer func() {
		if r := recover(); r != nil {
			o.Status = "panic"
			o.Msg = fmt.Sprint(r)
		}
	}()

	b, _ := base64.StdEncoding.DecodeString(c.Content)
	content := string(b)
	fileURI := fmt.Sprintf("file:///ws/p/p%d.rego", c.ID)
	ls.cache.SetFileContents(fileURI, content)

	var (
		fix   fixes.Fix
		label string
	)

	// as in the command worker of server.go
	switch c.Fix {
	case "uao":
		label, fix = "Replace = with := in assignment", &fixes.UseAssignmentOperator{}
	case "nwc":
		label, fix = "Format comment to have leading whitespace", &fixes.NoWhitespaceComment{}
	case "nrr":
		label, fix = "Replace \" with ` in regex pattern", &fixes.NonRawRegexPattern{}
	}

	// the diagnostic published for the violation, as the client sends it back with the code action
	diag := types.Diagnostic{Range: getRangeForViolation(report.Violation{
		Title:    fix.Name(),
		Location: report.Location{Row: c.Row, Column: c.Col, End: &report.Position{Row: c.ERow, Column: c.ECol}},
	})}

	fixed, params, err := ls.fixEditParams(label, fix, commandArgs{Target: fileURI, Diagnostic: &diag})
	if err != nil {
		o.Status = "error"
		o.Msg = err.Error()

		return o
	}

	if !fixed {
		o.Status = "none"

		return o
	}

	if len(params.Edit.DocumentChanges) != 1 || params.Edit.DocumentChanges[0].TextDocument.URI != fileURI {
		o.Status = "badedits"
		o.Msg = "not exactly one document change for the target"

		return o
	}

	res, msg := verifC11Apply(content, params.Edit.DocumentChanges[0].Edits)
	if msg != "" {
		o.Status = "badedits"
		o.Msg = msg

		return o
	}

	o.Status = "changed"
	o.Out = base64.StdEncoding.EncodeToString([]byte(res))

	return o
}

func TestVerifC11(t *testing.T) {
	in, out := os.Getenv("VERIF_C11_IN"), os.Getenv("VERIF_C11_OUT")
	if in == "" || out == "" {
		t.Skip("VERIF_C11_IN / VERIF_C11_OUT not set")
	}

	f, err := os.Open(in)
	if err != nil {
		t.Fatal(err)
	}
	defer f.Close()

	w, err := os.Create(out)
	if err != nil {
		t.Fatal(err)
	}
	defer w.Close()

	bw := bufio.NewWriter(w)
	defer bw.Flush()

	ls := NewLanguageServer(context.Background(), &LanguageServerOptions{LogWriter: io.Discard})
	ls.workspaceRootURI = "file:///ws"

	sc := bufio.NewScanner(f)
	sc.Buffer(make([]byte, 1<<20), 1<<26)

	for sc.Scan() {
		var c verifC11In
		if err := json.Unmarshal(sc.Bytes(), &c); err != nil {
			t.Fatal(err)
		}

		b, _ := json.Marshal(verifC11RunOne(ls, c))
		bw.Write(b)
		bw.WriteByte('\n')
	}
}
