package lsp

// Overlay test for C05 (never added to /repo): drives the two language server call sites of the
// ignore matcher, LanguageServer.ignoreURI (workspace *path* as prefix, one file) and
// LanguageServer.getFilteredModules (workspace *URI* as prefix, all cached modules), on the cases
// listed in $VERIF_C05_IN and writes what they returned, together with gobwas/glob's own answers
// for every candidate expansion (the oracle table), to $VERIF_C05_OUT.

import (
	"context"
	"encoding/json"
	"os"
	"sort"
	"strings"
	"testing"

	"github.com/gobwas/glob"

	"github.com/open-policy-agent/opa/v1/ast"

	"github.com/styrainc/regal/internal/lsp/clients"
	"github.com/styrainc/regal/internal/lsp/uri"
	"github.com/styrainc/regal/pkg/config"
)

func c05Closure(p string) []string {
	seen := map[string]bool{}
	var res []string
	add := func(s string) {
		if !seen[s] {
			seen[s] = true
			res = append(res, s)
		}
	}
	for _, b := range []string{p, "**/" + p} {
		for _, b1 := range []string{b, strings.TrimPrefix(b, "/")} {
			for _, b2 := range []string{b1, strings.TrimPrefix(b1, "**/")} {
				add(b2)
				add(b2 + "/**")
				add(b2 + "**")
			}
		}
	}
	return res
}

func TestVerifC05(t *testing.T) {
	inPath, outPath := os.Getenv("VERIF_C05_IN"), os.Getenv("VERIF_C05_OUT")
	if inPath == "" {
		t.Skip("no input")
	}
	type cs struct {
		Root   string   `json:"root"`
		URIs   []string `json:"uris"`
		Ignore []string `json:"ignore"`
		// observed
		Ignored   []bool     `json:"ignored"`    // ignoreURI(uri)
		Modules   []string   `json:"modules"`    // keys of getFilteredModules(), sorted
		ModulesOK bool       `json:"modules_ok"` // ... returned no error
		Direct    []string   `json:"direct"`     // config.FilterIgnoredPaths(paths, ignore, false, workspacePath())
		DirectOK  bool       `json:"direct_ok"`
		Cols      []string   `json:"cols"`
		Table     [][]string `json:"table"`
	}
	var cases []cs
	bs, err := os.ReadFile(inPath)
	if err != nil {
		t.Fatal(err)
	}
	if err := json.Unmarshal(bs, &cases); err != nil {
		t.Fatal(err)
	}
	for i := range cases {
		c := &cases[i]
		ls := NewLanguageServer(context.Background(), &LanguageServerOptions{})
		ls.workspaceRootURI = c.Root
		ls.clientIdentifier = clients.IdentifierGeneric
		ls.loadedConfig = &config.Config{Ignore: config.Ignore{Files: c.Ignore}}
		var paths []string
		for _, u := range c.URIs {
			c.Ignored = append(c.Ignored, ls.ignoreURI(u))
			ls.cache.SetModule(u, &ast.Module{})
			paths = append(paths, uri.ToPath(ls.clientIdentifier, u))
		}
		mods, err := ls.getFilteredModules()
		c.ModulesOK = err == nil
		c.Modules = []string{}
		for k := range mods {
			c.Modules = append(c.Modules, k)
		}
		sort.Strings(c.Modules)
		direct, err := config.FilterIgnoredPaths(paths, c.Ignore, false, ls.workspacePath())
		c.DirectOK = err == nil
		c.Direct = direct
		if c.Direct == nil {
			c.Direct = []string{}
		}
		// oracle table
		colSet := map[string]bool{}
		addc := func(s string) {
			if !colSet[s] {
				colSet[s] = true
				c.Cols = append(c.Cols, s)
			}
		}
		rootPath := strings.TrimPrefix(c.Root, "file://")
		for j, u := range c.URIs {
			for _, pair := range [][2]string{{u, c.Root}, {paths[j], rootPath}} {
				addc(pair[0])
				addc(strings.TrimPrefix(pair[0], "/"))
				for _, pre := range []string{pair[1], pair[1] + "/", strings.TrimSuffix(pair[1], "/")} {
					if pre != "" {
						addc(strings.TrimPrefix(pair[0], pre))
					}
				}
			}
		}
		patSet := map[string]bool{}
		for _, p := range c.Ignore {
			if patSet[p] {
				continue
			}
			patSet[p] = true
			for _, e := range c05Closure(p) {
				row := []string{e}
				g, err := glob.Compile(e, '/')
				if err != nil {
					row = append(row, "bad")
				} else {
					row = append(row, "ok")
					for _, col := range c.Cols {
						if g.Match(col) {
							row = append(row, col)
						}
					}
				}
				c.Table = append(c.Table, row)
			}
		}
	}
	out, _ := json.Marshal(cases)
	if err := os.WriteFile(outPath, out, 0o644); err != nil {
		t.Fatal(err)
	}
}
