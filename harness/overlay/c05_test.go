package lsp

// Overlay test for C05 (never added to /repo): drives the language server's use of the ignore matcher on the
// cases listed in $VERIF_C05_IN and writes what it did to $VERIF_C05_OUT.
//
//	call sites (kind "site"): LanguageServer.ignoreURI (one URI, workspace path as prefix) and
//	    LanguageServer.getFilteredModules (all cached modules), uri.ToPath of every URI and of the root;
//	documents (kind "diag"): textDocument/didOpen for every URI, then parse + updateAllDiagnostics the way the
//	    diagnostics worker does it: which URIs are among the files to lint / among the ignored files / get diagnostics;
//	workspace loading (kind "load"): a real tree below $work, loadWorkspaceContents (rio.WalkFiles + uri.FromPath +
//	    ignoreURI), then updateAllDiagnostics.
//
// URIs are percent-encoded (the test is given them as a client would send them), ignore patterns are written against
// plain root-relative paths.  Independent of regal's uri package the test also asks the matcher itself
// (config.FilterIgnoredPaths without prefix, as on the command line) about the plain root-relative path of every
// URI ("rels", computed by the caller with RFC 3986 decoding): the reference the predicate compares with.
// gobwas/glob's own answers for every candidate expansion (the oracle table of the Coq model) are added.

import (
	"context"
	"encoding/json"
	"fmt"
	"os"
	"path/filepath"
	"sort"
	"strings"
	"sync"
	"testing"

	"github.com/gobwas/glob"

	"github.com/open-policy-agent/opa/v1/ast"

	"github.com/styrainc/regal/internal/lsp/clients"
	"github.com/styrainc/regal/internal/lsp/rego"
	"github.com/styrainc/regal/internal/lsp/types"
	"github.com/styrainc/regal/internal/lsp/uri"
	"github.com/styrainc/regal/pkg/config"
)

func c05Closure(p string) []string {
	seen := map[string]bool{}
	var res []string
	add := func(s string) {
		if !seen[s] {
			seen[s] = true
			res = append(res, s)
		}
	}
	for _, b := range []string{p, "**/" + p} {
		for _, b1 := range []string{b, strings.TrimPrefix(b, "/")} {
			for _, b2 := range []string{b1, strings.TrimPrefix(b1, "**/")} {
				add(b2)
				add(b2 + "/**")
				add(b2 + "**")
			}
		}
	}
	return res
}

type c05Case struct {
	Kind       string   `json:"kind"`   // site | diag | load
	Root       string   `json:"root"`   // workspace root URI (load: set by the test from root_dir)
	Client     string   `json:"client"` // generic | vscode
	URIs       []string `json:"uris"`
	Rels       []string `json:"rels"` // plain root-relative path of every URI ("" = not below the root)
	Ignore     []string `json:"ignore"`
	RuleIgnore []string `json:"rule_ignore"` // ignore.files of style/prefer-snake-case (diag, load)
	RootDir    []string `json:"root_dir"`    // load: directory names below the work directory, the last one is the root
	Files      []string `json:"files"`       // load: files to create, relative to the root
	// observed
	Panic     string     `json:"panic"`      // the glob engine itself crashed on some expansion: nothing else was run
	RootPath  string     `json:"root_path"`  // workspacePath()
	Paths     []string   `json:"paths"`      // uri.ToPath(client, uri)
	Ignored   []bool     `json:"ignored"`    // site: ignoreURI(uri); diag/load: not among the files to lint
	Modules   []string   `json:"modules"`    // keys of getFilteredModules(), sorted
	ModulesOK bool       `json:"modules_ok"` // ... returned no error
	Direct    []string   `json:"direct"`     // config.FilterIgnoredPaths(paths, ignore, false, workspacePath())
	DirectOK  bool       `json:"direct_ok"`
	RelKept   []int      `json:"rel_kept"`      // per URI: FilterIgnoredPaths([rel], ignore, false, "") 1 kept, 0 dropped, -1 error, -2 no rel
	RelRule   []int      `json:"rel_rule_kept"` // same with the rule's list
	EncKept   []int      `json:"enc_kept"`      // the same two questions about the ENCODED text of the URI behind the root URI
	EncRule   []int      `json:"enc_rule_kept"` // (what a matcher that only trims the prefix is handed; classification of the open finding)
	InIgnored []bool     `json:"in_ignored"`    // diag/load: among the ignored files of the cache
	Diags     [][]string `json:"diags"`         // diag/load: diagnostic codes per URI, sorted
	Loaded    []string   `json:"loaded"`        // load: every URI among the files to lint, sorted
	Err       string     `json:"err"`
	Cols      []string   `json:"cols"`
	Table     [][]string `json:"table"`
}

func c05Client(s string) clients.Identifier {
	if s == "vscode" {
		return clients.IdentifierVSCode
	}
	return clients.IdentifierGeneric
}

// c05Table: gobwas/glob on every candidate expansion of every pattern x every name a matcher could be handed
func (c *c05Case) c05Table() (msg string) {
	defer func() {
		if r := recover(); r != nil {
			msg = fmt.Sprint(r)
		}
	}()
	colSet := map[string]bool{}
	addc := func(s string) {
		if !colSet[s] {
			colSet[s] = true
			c.Cols = append(c.Cols, s)
		}
	}
	rootRaw := strings.TrimPrefix(c.Root, "file://")
	for j, u := range c.URIs {
		if j < len(c.Rels) && c.Rels[j] != "" {
			addc(c.Rels[j])
		}
		for _, pair := range [][2]string{{u, c.Root}, {c.Paths[j], c.RootPath}, {strings.TrimPrefix(u, "file://"), rootRaw}} {
			addc(pair[0])
			addc(strings.TrimPrefix(pair[0], "/"))
			for _, pre := range []string{pair[1], pair[1] + "/", strings.TrimSuffix(pair[1], "/")} {
				if pre != "" {
					addc(strings.TrimPrefix(pair[0], pre))
				}
			}
		}
	}
	patSet := map[string]bool{}
	for _, p := range append(append([]string{}, c.Ignore...), c.RuleIgnore...) {
		if patSet[p] {
			continue
		}
		patSet[p] = true
		for _, e := range c05Closure(p) {
			row := []string{e}
			g, err := glob.Compile(e, '/')
			if err != nil {
				row = append(row, "bad")
			} else {
				row = append(row, "ok")
				for _, col := range c.Cols {
					msg = e + " on " + col
					if g.Match(col) {
						row = append(row, col)
					}
				}
			}
			c.Table = append(c.Table, row)
		}
	}
	return ""
}

func c05RelKept(rels []string, ignore []string) []int {
	res := make([]int, len(rels))
	for i, r := range rels {
		switch kept, err := config.FilterIgnoredPaths([]string{r}, ignore, false, ""); {
		case r == "":
			res[i] = -2
		case err != nil:
			res[i] = -1
		case len(kept) == 1:
			res[i] = 1
		}
	}
	return res
}

const c05Policy = "package p\n\ncamelCase := 1\n"

func (c *c05Case) config() *config.Config {
	conf := &config.Config{Ignore: config.Ignore{Files: c.Ignore}}
	if len(c.RuleIgnore) > 0 {
		conf.Rules = map[string]config.Category{"style": {"prefer-snake-case": config.Rule{
			Level: "error", Ignore: &config.Ignore{Files: c.RuleIgnore},
		}}}
	}
	return conf
}

func (c *c05Case) observeCache(ctx context.Context, ls *LanguageServer) error {
	if err := updateAllDiagnostics(ctx, ls.cache, ls.getLoadedConfig(), ls.workspaceRootURI, false, false, nil); err != nil {
		return err
	}
	for _, u := range c.URIs {
		_, inFiles := ls.cache.GetFileContents(u)
		_, inIgn := ls.cache.GetIgnoredFileContents(u)
		c.Ignored = append(c.Ignored, !inFiles)
		c.InIgnored = append(c.InIgnored, inIgn)
		codes := []string{}
		if diags, ok := ls.cache.GetFileDiagnostics(u); ok {
			for _, d := range diags {
				codes = append(codes, d.Code)
			}
		}
		sort.Strings(codes)
		c.Diags = append(c.Diags, codes)
	}
	c.Loaded = []string{}
	for u := range ls.cache.GetAllFiles() {
		c.Loaded = append(c.Loaded, u)
	}
	sort.Strings(c.Loaded)
	return nil
}

func (c *c05Case) run(work string, n int) {
	ctx := context.Background()
	ls := NewLanguageServer(ctx, &LanguageServerOptions{})
	ls.clientIdentifier = c05Client(c.Client)
	ls.loadedConfig = c.config()
	var dir string
	if c.Kind == "load" {
		// the tree is materialised first; URIs and the root are what the server itself would derive from it
		dir = filepath.Join(append([]string{work, fmt.Sprintf("l%d", n)}, c.RootDir...)...)
		for _, f := range c.Files {
			p := filepath.Join(dir, filepath.FromSlash(f))
			if err := os.MkdirAll(filepath.Dir(p), 0o755); err != nil {
				c.Err = err.Error()
				return
			}
			if err := os.WriteFile(p, []byte(c05Policy), 0o644); err != nil {
				c.Err = err.Error()
				return
			}
		}
		defer os.RemoveAll(filepath.Join(work, fmt.Sprintf("l%d", n)))
	}
	ls.workspaceRootURI = c.Root
	c.RootPath = ls.workspacePath()
	for _, u := range c.URIs {
		c.Paths = append(c.Paths, uri.ToPath(ls.clientIdentifier, u))
	}
	if m := c.c05Table(); m != "" {
		c.Panic = m
		c.Cols, c.Table = nil, nil
		return
	}
	c.RelKept = c05RelKept(c.Rels, c.Ignore)
	c.RelRule = c05RelKept(c.Rels, c.RuleIgnore)
	enc := make([]string, len(c.URIs))
	for i, u := range c.URIs {
		if strings.HasPrefix(u, c.Root+"/") {
			enc[i] = strings.TrimPrefix(u, c.Root+"/")
		}
	}
	c.EncKept = c05RelKept(enc, c.Ignore)
	c.EncRule = c05RelKept(enc, c.RuleIgnore)
	switch c.Kind {
	case "site":
		for _, u := range c.URIs {
			c.Ignored = append(c.Ignored, ls.ignoreURI(u))
			ls.cache.SetModule(u, &ast.Module{})
		}
		mods, err := ls.getFilteredModules()
		c.ModulesOK = err == nil
		c.Modules = []string{}
		for k := range mods {
			c.Modules = append(c.Modules, k)
		}
		sort.Strings(c.Modules)
		direct, err := config.FilterIgnoredPaths(c.Paths, c.Ignore, false, ls.workspacePath())
		c.DirectOK = err == nil
		c.Direct = direct
		if c.Direct == nil {
			c.Direct = []string{}
		}
	case "diag":
		for _, u := range c.URIs {
			if _, err := ls.handleTextDocumentDidOpen(types.TextDocumentDidOpenParams{
				TextDocument: types.TextDocumentItem{URI: u, Text: c05Policy},
			}); err != nil {
				c.Err = "didOpen: " + err.Error()
				return
			}
		}
		bis := rego.BuiltinsForCapabilities(ast.CapabilitiesForThisVersion())
		for u := range ls.cache.GetAllFiles() {
			if _, err := updateParse(ctx, ls.cache, ls.regoStore, u, bis, ast.RegoUndefined); err != nil {
				c.Err = "parse: " + err.Error()
				return
			}
		}
		if err := c.observeCache(ctx, ls); err != nil {
			c.Err = "lint: " + err.Error()
		}
	case "load":
		if _, err := ls.loadWorkspaceContents(ctx, false); err != nil {
			c.Err = "load: " + err.Error()
			return
		}
		if err := c.observeCache(ctx, ls); err != nil {
			c.Err = "lint: " + err.Error()
		}
	}
}

func TestVerifC05(t *testing.T) {
	inPath, outPath := os.Getenv("VERIF_C05_IN"), os.Getenv("VERIF_C05_OUT")
	if inPath == "" {
		t.Skip("no input")
	}
	var in struct {
		Work  string    `json:"work"`
		Cases []c05Case `json:"cases"`
	}
	bs, err := os.ReadFile(inPath)
	if err != nil {
		t.Fatal(err)
	}
	if err := json.Unmarshal(bs, &in); err != nil {
		t.Fatal(err)
	}
	// the root URI of a "load" case is derived from the real directory, as the server's client would
	for i := range in.Cases {
		c := &in.Cases[i]
		if c.Kind == "load" {
			dir := filepath.Join(append([]string{in.Work, fmt.Sprintf("l%d", i)}, c.RootDir...)...)
			c.Root = uri.FromPath(c05Client(c.Client), dir)
			c.URIs = nil
			for _, f := range c.Files {
				c.URIs = append(c.URIs, uri.FromPath(c05Client(c.Client), filepath.Join(dir, filepath.FromSlash(f))))
			}
		}
	}
	var wg sync.WaitGroup
	sem := make(chan struct{}, 8)
	for i := range in.Cases {
		wg.Add(1)
		sem <- struct{}{}
		go func(i int) {
			defer wg.Done()
			defer func() { <-sem }()
			in.Cases[i].run(in.Work, i)
		}(i)
	}
	wg.Wait()
	out, _ := json.Marshal(in.Cases)
	if err := os.WriteFile(outPath, out, 0o644); err != nil {
		t.Fatal(err)
	}
}
