// Overlay harness for C15 (and shared infrastructure for C17): a real LanguageServer with all
// workers that cmd/languageserver.go starts (except the web server), a scripted client on an
// in-memory pipe, exact quiescence detection, and a from-scratch reference lint.
// This file is injected into package lsp with `go test -overlay`; nothing is added to the tree.
package lsp

import (
	"context"
	"encoding/json"
	"fmt"
	"net"
	"os"
	"path/filepath"
	"runtime"
	"slices"
	"sort"
	"strconv"
	"strings"
	"sync"
	"testing"
	"time"

	"github.com/sourcegraph/jsonrpc2"

	"github.com/open-policy-agent/opa/v1/ast"

	rbundle "github.com/styrainc/regal/bundle"
	"github.com/styrainc/regal/internal/lsp/cache"
	"github.com/styrainc/regal/internal/lsp/log"
	"github.com/styrainc/regal/internal/lsp/types"
	rparse "github.com/styrainc/regal/internal/parse"
	"github.com/styrainc/regal/pkg/config"
	"github.com/styrainc/regal/pkg/linter"
	"github.com/styrainc/regal/pkg/report"
	"github.com/styrainc/regal/pkg/rules"

	"gopkg.in/yaml.v3"
)

// ---------------------------------------------------------------------------------- PRNG

type vRng struct{ s uint64 }

func (r *vRng) next() uint64 {
	r.s += 0x9E3779B97F4A7C15
	z := r.s
	z = (z ^ (z >> 30)) * 0xBF58476D1CE4E5B9
	z = (z ^ (z >> 27)) * 0x94D049BB133111EB

	return z ^ (z >> 31)
}

func (r *vRng) below(n int) int { return int(r.next() % uint64(n)) }

func vSeed() uint64 {
	if n, err := strconv.ParseUint(os.Getenv("VERIF_SEED"), 10, 64); err == nil {
		return n
	}

	return 1
}

// ---------------------------------------------------------------------------------- log tap

// vLog receives every log line of the server (debug level) and counts the job life-cycle
// messages of StartDiagnosticsWorker; this is what makes quiescence detection exact.
type vLog struct {
	mu        sync.Mutex
	fileStart int // "linting file <uri> (<reason>)"
	fileDone  int // "linting file <uri> done"  (a workspace job has been enqueued before this line)
	fileFail  int // "failed to update module for" / "failed to update file diagnostics"
	wsDrop    int // "rate limiting aggregate reports"
	anyDrop   int // any "rate limiting ..." line (whatever the code under test calls what it drops)
	wsStart   int // "linting workspace: ..."
	wsDone    int // "linting workspace done"
	wsCfg     int // workspace runs started for a "config file changed" / "config file dropped" job
	cfgFail   int // config reloads that the config worker abandoned (no workspace job follows)
	wsOpen    bool // the last "linting workspace:" line has no "done" yet: the run is in progress or was skipped
	lines     []string
	keep      bool
	lastWrite time.Time
}

func (v *vLog) Write(p []byte) (int, error) {
	s := strings.TrimRight(string(p), "\n")

	v.mu.Lock()
	defer v.mu.Unlock()

	v.lastWrite = time.Now()

	if strings.HasPrefix(s, "rate limiting") {
		v.anyDrop++
	}

	switch {
	case strings.HasPrefix(s, "linting file ") && strings.HasSuffix(s, " done"):
		v.fileDone++
	case strings.HasPrefix(s, "linting file "):
		v.fileStart++
	case strings.HasPrefix(s, "failed to update module for "), strings.HasPrefix(s, "failed to update file diagnostics: "):
		v.fileFail++
	case strings.HasPrefix(s, "failed to open config file: "), strings.HasPrefix(s, "failed to reload config: "),
		strings.HasPrefix(s, "failed to load config: "), strings.HasPrefix(s, "failed to load capabilities for URL "):
		v.cfgFail++
	case s == "rate limiting aggregate reports":
		v.wsDrop++
	case s == "linting workspace done":
		v.wsDone++
		v.wsOpen = false
	case strings.HasPrefix(s, "linting workspace: "):
		// one worker goroutine: a new run means the previous one is over; without a "done" line it was
		// skipped (no module in the cache) and counts as finished
		if v.wsOpen {
			v.wsDone++
		}

		v.wsStart++
		v.wsOpen = true

		if strings.Contains(s, `Reason:"config file `) {
			v.wsCfg++
		}
	}

	// keep everything when asked to, otherwise the most recent lines (for failure reports)
	if v.keep {
		if len(v.lines) < 4000 {
			v.lines = append(v.lines, s)
		}
	} else {
		if len(v.lines) >= 400 {
			v.lines = append(v.lines[:0], v.lines[200:]...)
		}

		v.lines = append(v.lines, s)
	}

	return len(p), nil
}

type vCounters struct{ FileStart, FileDone, FileFail, WsDrop, WsStart, WsDone, WsCfg, CfgFail int }

func (v *vLog) snapshot() vCounters {
	v.mu.Lock()
	defer v.mu.Unlock()

	return vCounters{v.fileStart, v.fileDone, v.fileFail, v.wsDrop, v.wsStart, v.wsDone, v.wsCfg, v.cfgFail}
}

func (v *vLog) last() time.Time {
	v.mu.Lock()
	defer v.mu.Unlock()

	return v.lastWrite
}

func (v *vLog) tail(n int) []string {
	v.mu.Lock()
	defer v.mu.Unlock()

	if len(v.lines) <= n {
		return slices.Clone(v.lines)
	}

	return slices.Clone(v.lines[len(v.lines)-n:])
}

// ---------------------------------------------------------------------------------- server under test

type vSrv struct {
	dir     string
	rootURI string
	ls      *LanguageServer
	conn    *jsonrpc2.Conn
	cancel  context.CancelFunc
	ctx     context.Context
	log     *vLog

	mu       sync.Mutex
	pub      map[string][]types.Diagnostic // last published diagnostics per URI
	pubN     int
	otherReq []string // server->client requests other than publishDiagnostics

	// number of workspace jobs that were enqueued by something else than a finished file job
	// (initialize, initialized, config events, didChangeWatchedFiles); maintained by the driver.
	workers     sync.WaitGroup
	wsOther     int
	inexact     bool
	noAnchor    bool
	cfgEvents   int // config events injected so far
	stableWaits int // number of times quiescence was established by the stability fallback
}

const (
	vAnchorName   = "zz_anchor.rego"
	vAnchorText   = "package zz_anchor\n\nanchored := true\n"
	vSentinelName = "zz_verif_sentinel_not_in_cache.rego"
)

// generous on purpose (the box may be heavily loaded); VERIF_TIMEOUT_S shortens them for experiments
var (
	vCallTimeout = vTimeoutEnv(900 * time.Second)
	vIdleTimeout = vTimeoutEnv(900 * time.Second)
)

func vTimeoutEnv(def time.Duration) time.Duration {
	if n, err := strconv.Atoi(os.Getenv("VERIF_TIMEOUT_S")); err == nil && n > 0 {
		return time.Duration(n) * time.Second
	}

	return def
}

var vStableWindow = 2 * time.Second

func (s *vSrv) uri(name string) string { return s.rootURI + "/" + name }

// vNewServer writes the initial files, starts the server as cmd/languageserver.go does (minus the
// web server), and performs initialize + initialized.
func vNewServer(files map[string]string, keepLog bool) (*vSrv, error) {
	dir, err := os.MkdirTemp(os.Getenv("VERIF_WORK"), "ws")
	if err != nil {
		return nil, err
	}

	// resolve symlinks so that URIs computed by the server from walking the directory agree
	if d, err := filepath.EvalSymlinks(dir); err == nil {
		dir = d
	}

	for name, text := range files {
		p := filepath.Join(dir, name)
		if err := os.MkdirAll(filepath.Dir(p), 0o755); err != nil {
			return nil, err
		}

		if err := os.WriteFile(p, []byte(text), 0o644); err != nil {
			return nil, err
		}
	}

	ctx, cancel := context.WithCancel(context.Background())
	s := &vSrv{dir: dir, rootURI: "file://" + dir, cancel: cancel, ctx: ctx, log: &vLog{keep: keepLog}, pub: map[string][]types.Diagnostic{}}

	s.ls = NewLanguageServer(ctx, &LanguageServerOptions{LogWriter: s.log, LogLevel: log.LevelDebug})

	for _, w := range []func(context.Context){
		s.ls.StartDiagnosticsWorker, s.ls.StartHoverWorker, s.ls.StartCommandWorker, s.ls.StartConfigWorker,
		s.ls.StartWorkspaceStateWorker, s.ls.StartTemplateWorker,
	} {
		s.workers.Add(1)

		go func() {
			defer s.workers.Done()

			w(ctx)
		}()
	}

	a, b := net.Pipe()

	connServer := jsonrpc2.NewConn(ctx, jsonrpc2.NewBufferedStream(a, jsonrpc2.VSCodeObjectCodec{}), jsonrpc2.HandlerWithError(s.ls.Handle))
	s.conn = jsonrpc2.NewConn(ctx, jsonrpc2.NewBufferedStream(b, jsonrpc2.VSCodeObjectCodec{}), vClientHandler{s})

	go func() {
		<-ctx.Done()

		_ = a.Close()
		_ = b.Close()
	}()

	s.ls.SetConn(connServer)

	return s, nil
}

func (s *vSrv) initialize() error {
	var resp types.InitializeResult

	if err := s.call("initialize", types.InitializeParams{RootURI: s.rootURI, ClientInfo: types.Client{Name: "verif"}}, &resp); err != nil {
		return fmt.Errorf("initialize: %w", err)
	}

	s.wsOther++ // "server initialize"

	if err := s.call("initialized", struct{}{}, nil); err != nil {
		return fmt.Errorf("initialized: %w", err)
	}

	if !s.ls.configWatcher.IsWatching() {
		s.wsOther++ // "server initialized"
	}

	return nil
}

func (s *vSrv) close() {
	s.cancel()
	_ = s.conn.Close()

	// the workers still touch the workspace directory until they have noticed the cancellation
	done := make(chan struct{})

	go func() {
		s.workers.Wait()
		close(done)
	}()

	select {
	case <-done:
		_ = os.RemoveAll(s.dir)
	case <-time.After(120 * time.Second):
		// left for the driver's cleanup of its temporary directory
	}
}

// vClientHandler: notifications (publishDiagnostics) are processed in order on the client's read loop;
// requests of the server (workspace/applyEdit, regal/startDebugging, ...) are answered from another
// goroutine.  The pipe is unbuffered: a client whose read loop blocks while writing a reply, a server
// worker that holds the server's send lock while writing a notification, and the server's read loop
// waiting for that lock to send a response would otherwise wait for each other.  A real client with OS
// pipes does not block on such a small write.
type vClientHandler struct{ s *vSrv }

func (h vClientHandler) Handle(ctx context.Context, conn *jsonrpc2.Conn, req *jsonrpc2.Request) {
	res, err := h.s.clientHandle(ctx, conn, req)
	if req.Notif {
		return
	}

	go func() {
		if err != nil {
			_ = conn.ReplyWithError(ctx, req.ID, &jsonrpc2.Error{Code: jsonrpc2.CodeInternalError, Message: err.Error()})

			return
		}

		_ = conn.Reply(ctx, req.ID, res)
	}()
}

func (s *vSrv) clientHandle(_ context.Context, _ *jsonrpc2.Conn, req *jsonrpc2.Request) (any, error) {
	if req.Method != methodTextDocumentPublishDiagnostics {
		s.mu.Lock()
		s.otherReq = append(s.otherReq, req.Method)
		s.mu.Unlock()

		return struct{}{}, nil
	}

	var fd types.FileDiagnostics
	if req.Params != nil {
		if err := json.Unmarshal(*req.Params, &fd); err != nil {
			return nil, err
		}
	}

	s.mu.Lock()
	s.pub[fd.URI] = fd.Items
	s.pubN++
	s.mu.Unlock()

	return struct{}{}, nil
}

// vBounded runs f and gives up after d.  Writing a message to the in-memory pipe blocks until the
// server's read loop takes it, and that loop runs the handlers: a handler that is stuck (e.g. on a job
// channel nobody drains) would otherwise hang the client side as well.  The abandoned goroutine ends
// when the connection is closed.
func vBounded(d time.Duration, f func() error) error {
	done := make(chan error, 1)

	go func() { done <- f() }()

	select {
	case err := <-done:
		return err
	case <-time.After(d):
		return context.DeadlineExceeded
	}
}

func (s *vSrv) call(method string, params, result any) error {
	return s.callT(vCallTimeout, method, params, result)
}

func (s *vSrv) callT(d time.Duration, method string, params, result any) error {
	ctx, cancel := context.WithTimeout(s.ctx, d)
	defer cancel()

	return vBounded(d+5*time.Second, func() error { return s.conn.Call(ctx, method, params, result) })
}

func (s *vSrv) notify(method string, params any) error {
	return vBounded(vCallTimeout, func() error { return s.conn.Notify(s.ctx, method, params) })
}

// send delivers a message either as a request (waiting for the response: the handler has returned)
// or as a notification.
func (s *vSrv) send(sync bool, method string, params any) error {
	if sync {
		var res json.RawMessage

		return s.call(method, params, &res)
	}

	return s.notify(method, params)
}

// barrier: Handle runs in the connection's read loop, so once this no-op request is answered every
// message sent before it has been handled.
func (s *vSrv) barrier() error {
	var res json.RawMessage

	return s.call("textDocument/diagnostic", struct{}{}, &res)
}

func vSendN[T any](ch chan T, v T, n int, deadline time.Time) bool {
	for range n {
		select {
		case ch <- v:
		case <-time.After(time.Until(deadline)):
			return false
		}
	}

	return true
}

// drainWorkers: each worker is a single goroutine that takes the next job only after finishing the
// previous one, so once cap+1 no-op sentinel jobs have been accepted by a channel every job that was
// in it before has been completely processed (including the sends it performs).
func (s *vSrv) drainWorkers(deadline time.Time) error {
	l := s.ls
	// template worker first: it may enqueue file jobs.  A URI directly in the root is skipped by it.
	if !vSendN(l.templateFileJobs, lintFileJob{Reason: "verif-sentinel", URI: s.uri(vSentinelName)}, cap(l.templateFileJobs)+1, deadline) {
		return fmt.Errorf("template worker does not drain its channel")
	}
	// file worker: a URI without cached contents makes updateParse fail -> logged, no workspace job
	if !vSendN(l.lintFileJobs, lintFileJob{Reason: "verif-sentinel", URI: s.uri(vSentinelName)}, cap(l.lintFileJobs)+1, deadline) {
		return fmt.Errorf("file lint worker does not drain its channel")
	}
	// hover worker: URI not in the cache -> skipped
	if !vSendN(l.builtinsPositionJobs, lintFileJob{Reason: "verif-sentinel", URI: s.uri(vSentinelName)}, cap(l.builtinsPositionJobs)+1, deadline) {
		return fmt.Errorf("hover worker does not drain its channel")
	}
	// command worker: no arguments -> logged and skipped
	if !vSendN(l.commandRequest, types.ExecuteCommandParams{Command: "verif-sentinel"}, cap(l.commandRequest)+1, deadline) {
		return fmt.Errorf("command worker does not drain its channel")
	}

	return nil
}

// waitIdle returns nil when the server is quiescent.  Handler idle (barrier) and job workers drained
// are established exactly.  For the workspace-lint stage (whose run queue is a local variable of
// StartDiagnosticsWorker) two criteria are used:
//   - exact accounting (fast path): every workspace job that the modelled code enqueues (one per
//     finished file job + s.wsOther) has been either dropped by the rate limiter or run to completion;
//   - stability (fallback, also covers code that enqueues fewer or more jobs than expected): no file
//     or workspace job is in progress, both visible queues are empty and not a single log line has
//     been written for vStableWindow.  A job can sit unnoticed in the run queue only for the few
//     microseconds the idle worker needs to pick it up, so the window is generous by 5-6 orders.
// Requires a module in the cache at all times (the workspace worker logs no completion otherwise).
func (s *vSrv) waitIdle(timeout time.Duration) error {
	deadline := time.Now().Add(timeout)

	if err := s.barrier(); err != nil {
		return fmt.Errorf("barrier request failed: %w", err)
	}

	if err := s.drainWorkers(deadline); err != nil {
		return err
	}

	for {
		c := s.log.snapshot()
		enq := s.wsOther + c.FileDone
		balanced := len(s.ls.lintFileJobs) == 0 && len(s.ls.lintWorkspaceJobs) == 0 &&
			c.FileStart == c.FileDone+c.FileFail && c.WsStart == c.WsDone

		if balanced && !s.inexact && c.WsDrop+c.WsStart == enq-c.CfgFail {
			// notifications are written to the pipe synchronously, but the client handler runs on
			// the client's read loop: flush it
			return s.barrier()
		}

		if c.WsDrop+c.WsStart > enq-c.CfgFail {
			s.inexact = true // the code under test enqueues more than the model of it: accounting is off
		}

		// without any module in the cache the workspace worker skips its job without logging "done"
		if !balanced && (s.noAnchor || s.inexact) && len(s.ls.cache.GetAllModules()) == 0 && len(s.ls.lintFileJobs) == 0 &&
			len(s.ls.lintWorkspaceJobs) == 0 && c.FileStart == c.FileDone+c.FileFail {
			balanced = true
		}

		// the config worker works silently (reading the file, determining the enabled rules) before it
		// enqueues its job, which is never rate limited: while one is outstanding only the accounting counts
		if balanced && c.WsCfg+c.CfgFail >= s.cfgEvents && time.Since(s.log.last()) > vStableWindow {
			s.stableWaits++

			if c.WsDrop+c.WsStart != enq-c.CfgFail {
				s.wsOther += c.WsDrop + c.WsStart - (enq - c.CfgFail) // resynchronise the accounting
			}

			return s.barrier()
		}

		if time.Now().After(deadline) {
			return fmt.Errorf("server did not become idle: %+v wsOther=%d qf=%d qw=%d", c, s.wsOther, len(s.ls.lintFileJobs), len(s.ls.lintWorkspaceJobs))
		}

		time.Sleep(5 * time.Millisecond)
	}
}

// ---------------------------------------------------------------------------------- canonical diagnostics

func (s *vSrv) canonDiag(d types.Diagnostic) string { return vCanonDiag(d, s.dir) }

func vCanonDiag(d types.Diagnostic, dir string) string {
	href := ""
	if d.CodeDescription != nil {
		href = d.CodeDescription.Href
	}

	msg := strings.ReplaceAll(d.Message, dir, "/R")

	return fmt.Sprintf("%s|%s|%d|%d:%d-%d:%d|%s|%s", d.Code, d.Source, d.Severity,
		d.Range.Start.Line, d.Range.Start.Character, d.Range.End.Line, d.Range.End.Character, msg, href)
}

func vCanonList(ds []types.Diagnostic, dir string) []string {
	out := make([]string, 0, len(ds))
	for _, d := range ds {
		out = append(out, vCanonDiag(d, dir))
	}

	sort.Strings(out)

	return out
}

// published returns name -> canonical sorted diagnostics, for every URI that currently has a
// non-empty last publish.
func (s *vSrv) published() map[string][]string {
	s.mu.Lock()
	defer s.mu.Unlock()

	out := map[string][]string{}

	for u, ds := range s.pub {
		if len(ds) == 0 {
			continue
		}

		out[strings.TrimPrefix(u, s.rootURI+"/")] = vCanonList(ds, s.dir)
	}

	return out
}

// ---------------------------------------------------------------------------------- reference: from-scratch lint

func vLoadConfig(yamlText string) (*config.Config, error) {
	var user config.Config

	if strings.TrimSpace(yamlText) != "" {
		if err := yaml.Unmarshal([]byte(yamlText), &user); err != nil {
			return nil, err
		}
	}

	merged, err := config.LoadConfigWithDefaultsFromBundle(&rbundle.LoadedBundle, &user)
	if err != nil {
		return nil, err
	}

	return &merged, nil
}

// vFresh computes what a server started on exactly these contents reports: parse every file into a
// new cache, one full workspace lint (as the "server initialize" job does), then per file the parse
// errors if any, else the lint diagnostics.  dir is only used to form the same URIs.
func vFresh(ctx context.Context, dir string, files map[string]string, cfg *config.Config) (map[string][]string, error) {
	c := cache.NewCache()
	store := NewRegalStore()
	root := "file://" + dir
	probe := NewLanguageServer(ctx, &LanguageServerOptions{LogLevel: log.LevelOff})
	bis := probe.builtinsForCurrentCapabilities()

	for name, text := range files {
		u := root + "/" + name
		c.SetFileContents(u, text)

		if _, err := updateParse(ctx, c, store, u, bis, probe.regoVersionForURI(u)); err != nil {
			return nil, fmt.Errorf("fresh parse of %s: %w", name, err)
		}
	}

	if len(c.GetAllModules()) > 0 {
		if err := updateAllDiagnostics(ctx, c, cfg, root, true, false, nil); err != nil {
			return nil, fmt.Errorf("fresh lint: %w", err)
		}
	}

	out := map[string][]string{}

	for name := range files {
		u := root + "/" + name

		ds, _ := c.GetParseErrors(u)
		if len(ds) == 0 {
			ds, _ = c.GetFileDiagnostics(u)
		}

		if len(ds) > 0 {
			out[name] = vCanonList(ds, dir)
		}
	}

	return out, nil
}

var vFreshCache sync.Map // key (config + files) -> map[string][]string

// vFreshMemo: the reference only depends on the contents and the config (diagnostics are
// canonicalised, the directory name does not occur in them), so it is computed once per final state.
func vFreshMemo(ctx context.Context, dir string, w *vWorld) (map[string][]string, error) {
	names := make([]string, 0, len(w.cur))
	for n := range w.cur {
		names = append(names, n)
	}

	sort.Strings(names)

	var kb strings.Builder

	kb.WriteString(w.cfg)

	for _, n := range names {
		fmt.Fprintf(&kb, "\x00%s\x01%s", n, w.cur[n])
	}

	if v, ok := vFreshCache.Load(kb.String()); ok {
		return v.(map[string][]string), nil //nolint:forcetypeassert
	}

	var cfg *config.Config

	if w.cfg != "<nil>" {
		var err error
		if cfg, err = vLoadConfig(w.cfg); err != nil {
			return nil, err
		}
	}

	fr, err := vFresh(ctx, dir, w.cur, cfg)
	if err != nil {
		return nil, err
	}

	vFreshCache.Store(kb.String(), fr)

	return fr, nil
}

// ---------------------------------------------------------------------------------- events

// vEvent is an editor event of a C15 history.  Files are names relative to the workspace root.
type vEvent struct {
	Op   string `json:"op"`             // open | change | create | delete | rename | config | configdrop
	File string `json:"file,omitempty"` // subject
	To   string `json:"to,omitempty"`   // rename target
	Text string `json:"text,omitempty"` // contents (open/change/create) or config yaml (config)
	// burst mode only: pause before the event is delivered (to let a worker get into the middle of a job)
	SleepMs int `json:"sleep_ms,omitempty"`
}

// vWorld is the editor's view: which files exist and what their current (possibly unsaved) text is.
type vWorld struct {
	cur map[string]string // current editor contents
	cfg string            // yaml text of the loaded config ("" = defaults); "<nil>" after a drop
}

func (w *vWorld) clone() *vWorld {
	n := &vWorld{cur: map[string]string{}, cfg: w.cfg}
	for k, v := range w.cur {
		n.cur[k] = v
	}

	return n
}

// applicable: well-formed histories only touch files in a way an editor can.
func (w *vWorld) applicable(e vEvent) bool {
	_, ex := w.cur[e.File]

	switch e.Op {
	case "open", "create":
		return true // the text may be empty: an empty document is one of the document states (it does not parse)
	case "change":
		return ex
	case "delete":
		return ex
	case "rename":
		_, exTo := w.cur[e.To]

		return ex && !exTo && e.To != e.File
	case "config", "configdrop":
		return true
	}

	return false
}

func (w *vWorld) apply(e vEvent) {
	switch e.Op {
	case "open", "change", "create":
		w.cur[e.File] = e.Text
	case "delete":
		delete(w.cur, e.File)
	case "rename":
		w.cur[e.To] = w.cur[e.File]
		delete(w.cur, e.File)
	case "config":
		w.cfg = e.Text
	case "configdrop":
		w.cfg = "<nil>"
	}
}

// deliver performs the disk side of the event and sends the corresponding client message.
func (s *vSrv) deliver(e vEvent, w *vWorld, sync bool) error {
	p := filepath.Join(s.dir, e.File)

	switch e.Op {
	case "open":
		if _, err := os.Stat(p); err != nil {
			if err := os.WriteFile(p, []byte(e.Text), 0o644); err != nil {
				return err
			}
		}

		return s.send(sync, "textDocument/didOpen", types.TextDocumentDidOpenParams{
			TextDocument: types.TextDocumentItem{URI: s.uri(e.File), Text: e.Text, LanguageID: "rego"},
		})
	case "change":
		return s.send(sync, "textDocument/didChange", types.TextDocumentDidChangeParams{
			TextDocument:   types.TextDocumentIdentifier{URI: s.uri(e.File)},
			ContentChanges: []types.TextDocumentContentChangeEvent{{Text: e.Text}},
		})
	case "create":
		if err := os.WriteFile(p, []byte(e.Text), 0o644); err != nil {
			return err
		}

		return s.send(sync, "workspace/didCreateFiles", types.WorkspaceDidCreateFilesParams{
			Files: []types.WorkspaceDidCreateFilesParamsCreatedFile{{URI: s.uri(e.File)}},
		})
	case "delete":
		if err := os.Remove(p); err != nil && !os.IsNotExist(err) {
			return err
		}

		s.wsOther++ // the handler enqueues an aggregate-only workspace job

		return s.send(sync, "workspace/didDeleteFiles", types.WorkspaceDidDeleteFilesParams{
			Files: []types.WorkspaceDidDeleteFilesParamsDeletedFile{{URI: s.uri(e.File)}},
		})
	case "rename":
		// the editor saves the buffer before the file is moved (otherwise the workspace-state poller,
		// which reads the disk, and the didRenameFiles handler, which reads the cache, see different texts)
		if err := os.WriteFile(p, []byte(w.cur[e.File]), 0o644); err != nil {
			return err
		}

		if err := os.Rename(p, filepath.Join(s.dir, e.To)); err != nil {
			return err
		}

		return s.send(sync, "workspace/didRenameFiles", types.WorkspaceDidRenameFilesParams{
			Files: []types.WorkspaceDidRenameFilesParamsFileRename{{OldURI: s.uri(e.File), NewURI: s.uri(e.To)}},
		})
	case "config":
		// the fsnotify layer (internal/lsp/config.Watcher) is replaced by the harness: the file is
		// written and its path is handed to StartConfigWorker exactly as the watcher would do.
		cp := filepath.Join(s.dir, ".regal", "config.yaml")
		if err := os.MkdirAll(filepath.Dir(cp), 0o755); err != nil {
			return err
		}

		if err := os.WriteFile(cp, []byte(e.Text), 0o644); err != nil {
			return err
		}

		s.ls.configWatcher.Reload <- cp
		s.wsOther++
		s.cfgEvents++

		return nil
	case "configdrop":
		_ = os.Remove(filepath.Join(s.dir, ".regal", "config.yaml"))
		s.ls.configWatcher.Drop <- struct{}{}
		s.wsOther++
		s.cfgEvents++

		return nil
	}

	return fmt.Errorf("unknown op %q", e.Op)
}

// ---------------------------------------------------------------------------------- running one history

type vRun struct {
	ID        int                 `json:"id"`
	Mode      string              `json:"mode"` // step | burst
	NoAnchor  bool                `json:"noanchor,omitempty"`
	Init      map[string]string   `json:"init"`
	Events    []vEvent            `json:"events"`
	Final     map[string]string   `json:"final"`           // editor's view at the end
	Cfg       string              `json:"cfg"`             // config at the end
	Published map[string][]string `json:"published"`       // non-empty last publishes
	Fresh     map[string][]string `json:"fresh"`           // from-scratch reference
	Error     string              `json:"error,omitempty"` // harness-level failure (not idle, call failed, ...)
	Stats     vCounters           `json:"stats"`
	OtherReq  []string            `json:"other_requests,omitempty"`
	CodesOK   bool                `json:"codes_ok"` // every published code is in one of the two enabled-rule lists
	StableW   int                 `json:"stable_waits"`
	LogTail   []string            `json:"log_tail,omitempty"`
	Millis    int64               `json:"ms"`
	// step mode: the state after every event (index i = after events[:i+1]); the last one equals Published/Fresh
	Checkpoints []vCheckpoint `json:"checkpoints,omitempty"`
}

type vCheckpoint struct {
	N         int                 `json:"n"`
	Cfg       string              `json:"cfg"`
	Final     map[string]string   `json:"final"`
	Published map[string][]string `json:"published"`
	Fresh     map[string][]string `json:"fresh"`
}


func vRunHistory(job vRun, keepLog bool) (res vRun) {
	t0 := time.Now()
	id, mode, init, events := job.ID, job.Mode, job.Init, job.Events
	res = vRun{ID: id, Mode: mode, Init: init, Events: events, NoAnchor: job.NoAnchor}

	defer func() { res.Millis = time.Since(t0).Milliseconds() }()

	files := map[string]string{vAnchorName: vAnchorText}
	if job.NoAnchor {
		files = map[string]string{}
	}

	for k, v := range init {
		files[k] = v
	}

	s, err := vNewServer(files, keepLog)
	if err != nil {
		res.Error = "setup: " + err.Error()

		return res
	}

	defer s.close()

	s.noAnchor = job.NoAnchor

	fail := func(what string, err error) vRun {
		res.Error = what + ": " + err.Error()
		res.LogTail = s.log.tail(60)
		res.Stats = s.log.snapshot()

		return res
	}

	if err := s.initialize(); err != nil {
		return fail("initialize", err)
	}

	if err := s.waitIdle(vIdleTimeout); err != nil {
		return fail("idle after initialize", err)
	}

	w := &vWorld{cur: map[string]string{}}
	for k, v := range files {
		w.cur[k] = v
	}

	for i, e := range events {
		if !w.applicable(e) {
			return fail("history", fmt.Errorf("event %d (%+v) is not applicable", i, e))
		}

		if e.SleepMs > 0 && mode != "step" {
			time.Sleep(time.Duration(e.SleepMs) * time.Millisecond)
		}

		if err := s.deliver(e, w, mode == "step"); err != nil {
			return fail(fmt.Sprintf("deliver event %d", i), err)
		}

		w.apply(e)

		if mode == "step" {
			if err := s.waitIdle(vIdleTimeout); err != nil {
				return fail(fmt.Sprintf("idle after event %d", i), err)
			}

			if i < len(events)-1 {
				fr, err := vFreshMemo(s.ctx, s.dir, w)
				if err != nil {
					return fail("fresh", err)
				}

				res.Checkpoints = append(res.Checkpoints, vCheckpoint{N: i + 1, Cfg: w.cfg, Final: w.clone().cur, Published: s.published(), Fresh: fr})
			}
		}
	}

	if err := s.waitIdle(vIdleTimeout); err != nil {
		return fail("idle at end", err)
	}

	res.Final = w.cur
	res.Cfg = w.cfg
	res.Published = s.published()
	res.Stats = s.log.snapshot()
	res.OtherReq = s.otherReq
	res.StableW = s.stableWaits

	if res.Fresh, err = vFreshMemo(s.ctx, s.dir, w); err != nil {
		return fail("fresh", err)
	}

	known := map[string]bool{}
	for _, r := range s.ls.getEnabledNonAggregateRules() {
		known[r] = true
	}

	for _, r := range s.ls.getEnabledAggregateRules() {
		known[r] = true
	}

	res.CodesOK = true

	s.mu.Lock()
	for u, ds := range s.pub {
		pe, _ := s.ls.cache.GetParseErrors(u)
		if len(pe) > 0 {
			continue
		}

		for _, d := range ds {
			if !known[d.Code] {
				res.CodesOK = false
			}
		}
	}
	s.mu.Unlock()

	if keepLog {
		res.LogTail = s.log.tail(400)
	}

	return res
}

// vParallel runs jobs on a bounded number of goroutines and returns results in job order.
func vParallel[T any](n int, workers int, f func(i int) T) []T {
	out := make([]T, n)

	var wg sync.WaitGroup

	next := make(chan int)

	if workers < 1 {
		workers = 1
	}

	for range workers {
		wg.Add(1)

		go func() {
			defer wg.Done()

			for i := range next {
				out[i] = f(i)
			}
		}()
	}

	for i := range n {
		next <- i
	}

	close(next)
	wg.Wait()

	return out
}

// vHermeticHome: the server looks for a global config under $HOME/.config/regal
func vHermeticHome() {
	if h := os.Getenv("VERIF_HOME"); h != "" {
		_ = os.MkdirAll(h, 0o755)
		_ = os.Setenv("HOME", h)
	}
}

func vWorkers() int {
	if n, err := strconv.Atoi(os.Getenv("VERIF_WORKERS")); err == nil && n > 0 {
		return n
	}

	return max(2, runtime.NumCPU()*3/4)
}

// TestVerifC15Replay runs the histories given in the JSON file $VERIF_IN ([{mode,init,events}]) and
// writes one vRun per line to $VERIF_OUT.
func TestVerifC15Replay(t *testing.T) {
	in, out := os.Getenv("VERIF_IN"), os.Getenv("VERIF_OUT")
	if in == "" || out == "" {
		t.Skip("VERIF_IN / VERIF_OUT not set")
	}

	vHermeticHome()

	var jobs []vRun

	bs, err := os.ReadFile(in)
	if err != nil {
		t.Fatal(err)
	}

	if err := json.Unmarshal(bs, &jobs); err != nil {
		t.Fatal(err)
	}

	keep := os.Getenv("VERIF_KEEPLOG") != ""
	res := vParallel(len(jobs), vWorkers(), func(i int) vRun {
		return vRunHistory(jobs[i], keep)
	})

	f, err := os.Create(out)
	if err != nil {
		t.Fatal(err)
	}

	defer f.Close()

	enc := json.NewEncoder(f)
	for _, r := range res {
		if err := enc.Encode(r); err != nil {
			t.Fatal(err)
		}
	}
}

// ---------------------------------------------------------------------------------- oracle tables

// vOracleIn: the linter oracles of Model/Lsp.v are tabulated on the real linter for exactly the keys
// the model's predictions depend on (computed by Coq in a first pass).
type vOracleIn struct {
	Configs  []string `json:"configs"`  // yaml text per config id
	URIs     []string `json:"uris"`     // file name per uri id
	Contents []string `json:"contents"` // text per content id
	FKeys    [][3]int `json:"fkeys"`    // (config, uri, content)
	AKeys    []vAKey  `json:"akeys"`
}

type vAKey struct {
	K int      `json:"k"`
	M [][3]int `json:"m"` // (uri, config under which collected, content)
}

type vOracleOut struct {
	Parses []bool                         `json:"parses"`
	PErr   map[string][]string            `json:"perr"`  // "u,c" -> parse error diagnostics (unparseable contents only)
	FD     map[string][]string            `json:"fd"`    // "k,u,c" -> diagnostics
	AR     []map[string][]string          `json:"ar"`    // per akey: uri id -> diagnostics
	Rules  []map[string][]string          `json:"rules"` // per config: {"nonagg":[...], "agg":[...]}
	Errors []string                       `json:"errors,omitempty"`
}

const vOracleDir = "/verif-oracle-root"

type vFileLint struct {
	diags []string
	aggs  map[string][]report.Aggregate
	err   error
}

func vOracleFile(ctx context.Context, cfg *config.Config, uri, text string) vFileLint {
	module, err := rparse.ModuleWithOpts(uri, text, rparse.ParserOptions())
	if err != nil {
		return vFileLint{err: err}
	}

	input := rules.NewInput(map[string]string{uri: text}, map[string]*ast.Module{uri: module})
	li := linter.NewLinter().WithCollectQuery(true).WithExportAggregates(true).WithInputModules(&input).
		WithPathPrefix("file://" + vOracleDir)

	if cfg != nil {
		li = li.WithUserConfig(*cfg)
	}

	rpt, err := li.Lint(ctx)
	if err != nil {
		return vFileLint{err: err}
	}

	fd := convertReportToDiagnostics(&rpt, "file://"+vOracleDir)
	own := map[string][]report.Aggregate{}

	for k, as := range rpt.Aggregates {
		for _, a := range as {
			if a.SourceFile() == uri {
				own[k] = append(own[k], a)
			}
		}
	}

	return vFileLint{diags: vCanonList(fd[uri], vOracleDir), aggs: own}
}

func TestVerifC15Oracle(t *testing.T) {
	in, out := os.Getenv("VERIF_IN"), os.Getenv("VERIF_OUT")
	if in == "" || out == "" {
		t.Skip("VERIF_IN / VERIF_OUT not set")
	}

	vHermeticHome()

	var q vOracleIn

	bs, err := os.ReadFile(in)
	if err != nil {
		t.Fatal(err)
	}

	if err := json.Unmarshal(bs, &q); err != nil {
		t.Fatal(err)
	}

	ctx := context.Background()
	root := "file://" + vOracleDir
	res := vOracleOut{PErr: map[string][]string{}, FD: map[string][]string{}}

	cfgs := make([]*config.Config, len(q.Configs))
	for i, y := range q.Configs {
		if cfgs[i], err = vLoadConfig(y); err != nil {
			t.Fatal(err)
		}

		probe := NewLanguageServer(ctx, &LanguageServerOptions{LogLevel: log.LevelOff})
		if err := probe.loadEnabledRulesFromConfig(ctx, *cfgs[i]); err != nil {
			t.Fatal(err)
		}

		res.Rules = append(res.Rules, map[string][]string{
			"nonagg": slices.Clone(probe.getEnabledNonAggregateRules()), "agg": slices.Clone(probe.getEnabledAggregateRules()),
		})
	}

	// parse table and parse-error diagnostics (via updateParse on a scratch cache)
	probe := NewLanguageServer(ctx, &LanguageServerOptions{LogLevel: log.LevelOff})
	bis := probe.builtinsForCurrentCapabilities()

	for ci, text := range q.Contents {
		_, perr := rparse.ModuleWithOpts(root+"/x.rego", text, rparse.ParserOptions())
		res.Parses = append(res.Parses, perr == nil)

		if perr == nil {
			continue
		}

		for ui, name := range q.URIs {
			c := cache.NewCache()
			u := root + "/" + name
			c.SetFileContents(u, text)

			if _, err := updateParse(ctx, c, NewRegalStore(), u, bis, probe.regoVersionForURI(u)); err != nil {
				res.Errors = append(res.Errors, fmt.Sprintf("updateParse(%s, content %d): %v", name, ci, err))
			}

			pe, _ := c.GetParseErrors(u)
			res.PErr[fmt.Sprintf("%d,%d", ui, ci)] = vCanonList(pe, vOracleDir)
		}
	}

	// every (config, uri, content) that occurs as a file key or inside an aggregate key
	type fk [3]int

	need := map[fk]bool{}
	for _, k := range q.FKeys {
		need[fk(k)] = true
	}

	for _, a := range q.AKeys {
		for _, e := range a.M {
			need[fk{e[1], e[0], e[2]}] = true
		}
	}

	fks := make([]fk, 0, len(need))
	for k := range need {
		fks = append(fks, k)
	}

	sort.Slice(fks, func(i, j int) bool { return fks[i][0]*1e6+fks[i][1]*1e3+fks[i][2] < fks[j][0]*1e6+fks[j][1]*1e3+fks[j][2] })

	lints := vParallel(len(fks), vWorkers(), func(i int) vFileLint {
		k := fks[i]

		return vOracleFile(ctx, cfgs[k[0]], root+"/"+q.URIs[k[1]], q.Contents[k[2]])
	})

	byKey := map[fk]vFileLint{}

	for i, k := range fks {
		byKey[k] = lints[i]
		if lints[i].err != nil {
			res.Errors = append(res.Errors, fmt.Sprintf("lint %v: %v", k, lints[i].err))

			continue
		}

		res.FD[fmt.Sprintf("%d,%d,%d", k[0], k[1], k[2])] = lints[i].diags
	}

	res.AR = vParallel(len(q.AKeys), vWorkers(), func(i int) map[string][]string {
		a := q.AKeys[i]
		all := map[string][]report.Aggregate{}

		for _, e := range a.M {
			for k, as := range byKey[fk{e[1], e[0], e[2]}].aggs {
				all[k] = append(all[k], as...)
			}
		}

		outm := map[string][]string{}
		if len(all) == 0 {
			return outm // the linter refuses to run without input: nothing is reported
		}

		li := linter.NewLinter().WithPathPrefix(root).WithAggregates(all)
		if cfgs[a.K] != nil {
			li = li.WithUserConfig(*cfgs[a.K])
		}

		rpt, err := li.Lint(ctx)
		if err != nil {
			outm["error"] = []string{err.Error()}

			return outm
		}

		for u, ds := range convertReportToDiagnostics(&rpt, root) {
			name := strings.TrimPrefix(u, root+"/")
			if i := slices.Index(q.URIs, name); i >= 0 {
				outm[strconv.Itoa(i)] = vCanonList(ds, vOracleDir)
			}
		}

		return outm
	})

	ob, err := json.Marshal(res)
	if err != nil {
		t.Fatal(err)
	}

	if err := os.WriteFile(out, ob, 0o644); err != nil {
		t.Fatal(err)
	}
}

// ---------------------------------------------------------------------------------- forced interleaving: removal during the lint

// vRaceJob: a document large enough for its lint to take long is handed to the file-lint worker (Trigger), and while
// the worker is inside linter.Lint for it (the debug log shows the job started and not finished, the cache holds the
// parse results of the new contents) the file is removed (Removal: delete | rename).  At quiescence nothing may be
// left of the removed URI's diagnostics: not in the last publish, not in the cache.  Model-free predicate; the
// interleaving is forced by waiting on observable state, never by sleeping for the lint to "probably" run.
type vRaceJob struct {
	ID      int    `json:"id"`
	Trigger string `json:"trigger"` // change | open | create
	Removal string `json:"removal"` // delete | rename
	Rules   int    `json:"rules"`
	Clean   bool   `json:"clean"` // the big document has no violations of its own besides the unavoidable ones
	// results
	Reached       bool     `json:"reached"`        // the worker was seen inside the lint before the removal was sent
	Achieved      bool     `json:"achieved"`       // ... and was still inside after the removal had been handled
	GonePublished []string `json:"gone_published"` // last publish for the removed URI (canonical), must be empty
	GoneCached    int      `json:"gone_cached"`    // diagnostics cached for the removed URI, must be 0
	GoneParseErrs int      `json:"gone_parse_errors"`
	GoneAggs      bool     `json:"gone_aggregates"` // aggregates of the removed URI are back (the OPEN delete-race finding)
	LintMs        int64    `json:"lint_ms"`
	Error         string   `json:"error,omitempty"`
	LogTail       []string `json:"log_tail,omitempty"`
}

func vBigDoc(pkg string, n int, clean bool) string {
	var b strings.Builder

	b.WriteString("package " + pkg + "\n\n")

	for i := range n {
		if clean {
			fmt.Fprintf(&b, "rule_%d := %d\n\n", i, i)
		} else {
			fmt.Fprintf(&b, "rule_%d = %d\n\n", i, i)
		}
	}

	return b.String()
}

func vRunRace(job vRaceJob) (res vRaceJob) {
	res = job

	victim := "victim.rego"
	files := map[string]string{
		vAnchorName: vAnchorText,
		"keep.rego": "package keep\n\nimport data.victim\n\nx := victim.rule_0\n",
	}

	if job.Trigger == "change" {
		files[victim] = "package victim\n\nrule_0 := 0\n"
	}

	s, err := vNewServer(files, false)
	if err != nil {
		res.Error = "setup: " + err.Error()

		return res
	}

	defer s.close()

	fail := func(what string, err error) vRaceJob {
		res.Error = what + ": " + err.Error()
		res.LogTail = s.log.tail(60)

		return res
	}

	if err := s.initialize(); err != nil {
		return fail("initialize", err)
	}

	if err := s.waitIdle(vIdleTimeout); err != nil {
		return fail("idle after initialize", err)
	}

	w := &vWorld{cur: map[string]string{}}
	for k, v := range files {
		w.cur[k] = v
	}

	big := vBigDoc("victim", job.Rules, job.Clean)
	uri := s.uri(victim)
	before := s.log.snapshot()
	ev := vEvent{Op: job.Trigger, File: victim, Text: big}

	if err := s.deliver(ev, w, false); err != nil {
		return fail("deliver trigger", err)
	}

	w.apply(ev)

	// wait until the file-lint worker has started a job after the trigger, the parse results of the new contents are in
	// the cache, and the job has not finished: the worker is then in (or about to enter) linter.Lint
	want := len(strings.Split(big, "\n"))
	inJob := func() bool {
		c := s.log.snapshot()

		return c.FileStart > before.FileStart && c.FileStart > c.FileDone+c.FileFail
	}

	t0 := time.Now()
	deadline := t0.Add(vIdleTimeout)

	for {
		n, ok := s.ls.cache.GetSuccessfulParseLineCount(uri)
		if ok && n == want && len(s.ls.cache.GetFileRefs(uri)) > job.Rules && inJob() {
			res.Reached = true

			break
		}

		c := s.log.snapshot()
		if c.FileDone+c.FileFail > before.FileDone+before.FileFail && len(s.ls.lintFileJobs) == 0 && !inJob() {
			break // the job is already over: the interleaving was not obtained (reported, not a failure)
		}

		if time.Now().After(deadline) {
			return fail("waiting for the lint to start", fmt.Errorf("time-out"))
		}

		time.Sleep(time.Millisecond)
	}

	time.Sleep(40 * time.Millisecond) // the rest of updateParse (store update) is short; the lint takes far longer

	var rm vEvent
	if job.Removal == "rename" {
		rm = vEvent{Op: "rename", File: victim, To: "moved.rego"}
	} else {
		rm = vEvent{Op: "delete", File: victim}
	}

	stillBefore := inJob()

	if err := s.deliver(rm, w, false); err != nil {
		return fail("deliver removal", err)
	}

	w.apply(rm)

	if err := s.barrier(); err != nil {
		return fail("barrier", err)
	}

	res.Achieved = res.Reached && stillBefore && inJob()
	res.LintMs = time.Since(t0).Milliseconds()

	s.inexact = true // the straddling job is outside the accounting of the job-atomic model: quiescence by stability

	if err := s.waitIdle(vIdleTimeout); err != nil {
		return fail("idle at end", err)
	}

	res.GonePublished = s.published()[victim]
	if res.GonePublished == nil {
		res.GonePublished = []string{}
	}

	if ds, ok := s.ls.cache.GetFileDiagnostics(uri); ok {
		res.GoneCached = len(ds)
	}

	if ds, ok := s.ls.cache.GetParseErrors(uri); ok {
		res.GoneParseErrs = len(ds)
	}

	res.GoneAggs = len(s.ls.cache.GetFileAggregates(uri)) > 0 // aggregates stored under the removed URI

	if len(res.GonePublished) > 0 || res.GoneCached > 0 {
		res.LogTail = s.log.tail(40)
	}

	return res
}

// TestVerifC15LintRace runs the scenarios of $VERIF_IN (JSON list of vRaceJob) and writes one result per line.
func TestVerifC15LintRace(t *testing.T) {
	in, out := os.Getenv("VERIF_IN"), os.Getenv("VERIF_OUT")
	if in == "" || out == "" {
		t.Skip("VERIF_IN / VERIF_OUT not set")
	}

	vHermeticHome()

	var jobs []vRaceJob

	bs, err := os.ReadFile(in)
	if err != nil {
		t.Fatal(err)
	}

	if err := json.Unmarshal(bs, &jobs); err != nil {
		t.Fatal(err)
	}

	results := vParallel(len(jobs), vWorkers(), func(i int) vRaceJob { return vRunRace(jobs[i]) })

	f, err := os.Create(out)
	if err != nil {
		t.Fatal(err)
	}

	defer f.Close()

	for _, r := range results {
		b, _ := json.Marshal(r)
		_, _ = f.Write(append(b, '\n'))
	}
}

// ---------------------------------------------------------------------------------- burst: config change while the limiter is dropping

// vBurstJob: a sustained stream of cheap events (workspace/didDeleteFiles notifications back to back, each of which
// makes the handler queue an aggregate report) keeps more than half of the run queue of the workspace-lint worker
// occupied, so that the dispatcher's rate limiter is dropping jobs; in the middle of it the config file changes.
// The stream is kept up until the run for the config change has started (the job of the config worker is a FULL lint
// and must never be dropped) or a generous time has passed.  At quiescence the last publishes must be those of a fresh
// lint under the new config.  Model-free predicate.
type vBurstJob struct {
	ID      int  `json:"id"`
	TurnOff bool `json:"turn_off"` // the change turns use-assignment-operator off (else: on again)
	// results
	DropsBefore int                 `json:"drops_before_config"` // jobs dropped by the limiter before the config was loaded
	DropsAfter  int                 `json:"drops_after_config"`  // ... between that and the end of the stream
	CfgRuns     int                 `json:"config_runs"`         // workspace runs started for a "config file ..." job
	Sent        int                 `json:"events_sent"`
	Published   map[string][]string `json:"published"`
	Fresh       map[string][]string `json:"fresh"`
	Error       string              `json:"error,omitempty"`
	LogTail     []string            `json:"log_tail,omitempty"`
}

func (v *vLog) drops() int {
	v.mu.Lock()
	defer v.mu.Unlock()

	return v.anyDrop
}

func vRunLimiterBurst(job vBurstJob) (res vBurstJob) {
	res = job

	const (
		cfgBase = "rules:\n  idiomatic:\n    directory-package-mismatch:\n      level: ignore\n"
		cfgOff  = cfgBase + "  style:\n    use-assignment-operator:\n      level: ignore\n"
		rule    = "use-assignment-operator"
	)

	cfgA, cfgB := cfgBase, cfgOff
	if !job.TurnOff {
		cfgA, cfgB = cfgOff, cfgBase
	}

	docs := map[string]string{
		vAnchorName:  vAnchorText,
		"main.rego":  "package main\n\nallow = true\n",
		"other.rego": "package other\n\nimport data.main\n\nx := main.allow\n",
	}

	files := map[string]string{".regal/config.yaml": cfgA}
	for k, v := range docs {
		files[k] = v
	}

	s, err := vNewServer(files, false)
	if err != nil {
		res.Error = "setup: " + err.Error()

		return res
	}

	defer s.close()

	s.inexact = true

	fail := func(what string, err error) vBurstJob {
		res.Error = what + ": " + err.Error()
		res.LogTail = s.log.tail(60)

		return res
	}

	if err := s.initialize(); err != nil {
		return fail("initialize", err)
	}

	if err := s.waitIdle(vIdleTimeout); err != nil {
		return fail("idle after initialize", err)
	}

	hasRule := func() bool { return slices.Contains(s.ls.getEnabledNonAggregateRules(), rule) }
	if hasRule() != job.TurnOff {
		return fail("setup", fmt.Errorf("initial config not loaded as expected"))
	}

	stop := make(chan struct{})
	done := make(chan int)

	go func() {
		n := 0

		for {
			select {
			case <-stop:
				done <- n

				return
			default:
			}

			_ = vBounded(vCallTimeout, func() error {
				return s.conn.Notify(s.ctx, "workspace/didDeleteFiles", types.WorkspaceDidDeleteFilesParams{
					Files: []types.WorkspaceDidDeleteFilesParamsDeletedFile{{URI: s.uri(fmt.Sprintf("ghost_%d.rego", n))}},
				})
			})

			n++

			// no pause: the pipe is synchronous, so the stream runs at the pace of the server's read loop and the run
			// queue is refilled within microseconds of the worker taking a run from it
		}
	}()

	finish := func() { close(stop); res.Sent = <-done }

	// the limiter is dropping (if the code under test has no limiter any more, go on after a while)
	for t0 := time.Now(); s.log.drops() == 0 && time.Since(t0) < 20*time.Second; {
		time.Sleep(2 * time.Millisecond)
	}

	before := s.log.snapshot()

	cp := filepath.Join(s.dir, ".regal", "config.yaml")
	if err := os.WriteFile(cp, []byte(cfgB), 0o644); err != nil {
		finish()

		return fail("write config", err)
	}

	select {
	case s.ls.configWatcher.Reload <- cp:
		s.cfgEvents++
	case <-time.After(vCallTimeout):
		finish()

		return fail("config", fmt.Errorf("config worker does not take the reload event"))
	}

	for t0 := time.Now(); hasRule() == job.TurnOff; {
		if time.Since(t0) > vCallTimeout {
			finish()

			return fail("config", fmt.Errorf("the new config was not loaded"))
		}

		time.Sleep(2 * time.Millisecond)
	}

	res.DropsBefore = s.log.drops()

	// keep the stream up until the run for the config change has started
	for t0 := time.Now(); s.log.snapshot().WsCfg == before.WsCfg && time.Since(t0) < 15*time.Second; {
		time.Sleep(5 * time.Millisecond)
	}

	finish()

	res.DropsAfter = s.log.drops() - res.DropsBefore

	if err := s.waitIdle(vIdleTimeout); err != nil {
		return fail("idle at end", err)
	}

	res.CfgRuns = s.log.snapshot().WsCfg - before.WsCfg
	res.Published = map[string][]string{}

	for name, ds := range s.published() {
		if _, ok := docs[name]; ok {
			res.Published[name] = ds
		}
	}

	cfg, err := vLoadConfig(cfgB)
	if err != nil {
		return fail("reference config", err)
	}

	if res.Fresh, err = vFresh(s.ctx, s.dir, docs, cfg); err != nil {
		return fail("fresh", err)
	}

	if !vSameDiags(res.Published, res.Fresh) {
		res.LogTail = s.log.tail(40)
	}

	return res
}

func vSameDiags(a, b map[string][]string) bool {
	if len(a) != len(b) {
		return false
	}

	for k, x := range a {
		if !slices.Equal(x, b[k]) {
			return false
		}
	}

	return true
}

// TestVerifC15LimiterBurst runs the scenarios of $VERIF_IN (JSON list of vBurstJob) and writes one result per line.
func TestVerifC15LimiterBurst(t *testing.T) {
	in, out := os.Getenv("VERIF_IN"), os.Getenv("VERIF_OUT")
	if in == "" || out == "" {
		t.Skip("VERIF_IN / VERIF_OUT not set")
	}

	vHermeticHome()

	var jobs []vBurstJob

	bs, err := os.ReadFile(in)
	if err != nil {
		t.Fatal(err)
	}

	if err := json.Unmarshal(bs, &jobs); err != nil {
		t.Fatal(err)
	}

	results := vParallel(len(jobs), vWorkers(), func(i int) vBurstJob { return vRunLimiterBurst(jobs[i]) })

	f, err := os.Create(out)
	if err != nil {
		t.Fatal(err)
	}

	defer f.Close()

	for _, r := range results {
		b, _ := json.Marshal(r)
		_, _ = f.Write(append(b, '\n'))
	}
}
