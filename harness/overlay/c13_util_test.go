// Overlay test injected into /repo/internal/util (package util) by tools/props/c13.py.
// FindClosestMatchingRoot on generated (path, roots) and DirCleanUpPaths on real temp trees.
package util

import (
	"bufio"
	"encoding/json"
	"os"
	"path/filepath"
	"sort"
	"strconv"
	"strings"
	"testing"
)

type urng struct{ s uint64 }

func (r *urng) next() uint64 {
	r.s += 0x9E3779B97F4A7C15
	z := r.s
	z = (z ^ (z >> 30)) * 0xBF58476D1CE4E5B9
	z = (z ^ (z >> 27)) * 0x94D049BB133111EB
	return z ^ (z >> 31)
}
func (r *urng) below(n int) int { return int(r.next() % uint64(n)) }

func TestVerifC13Util(t *testing.T) {
	outPath := os.Getenv("VERIF_OUT")
	if outPath == "" {
		t.Skip("VERIF_OUT not set")
	}
	seed, _ := strconv.ParseUint(os.Getenv("VERIF_SEED"), 10, 64)
	if seed == 0 {
		seed = 1
	}
	thorough := os.Getenv("VERIF_TIER") == "thorough"
	rng := &urng{s: seed ^ 0xC13C13}
	f, err := os.Create(outPath)
	if err != nil {
		t.Fatal(err)
	}
	defer f.Close()
	w := bufio.NewWriterSize(f, 1<<20)
	defer w.Flush()
	emit := func(v any) {
		b, err := json.Marshal(v)
		if err != nil {
			t.Fatal(err)
		}
		w.Write(b)
		w.WriteByte('\n')
	}

	// ---- FindClosestMatchingRoot: every ordered selection of <=3 roots x every path ---------
	rootsU := []string{"/w", "/w/foo", "/w/foo/", "/w/foobar", "/w/foo/bar", "/", "", "/w/f", "/v", "/w/foo/x.rego"}
	if !thorough {
		rootsU = rootsU[:8]
	}
	paths := []string{"/w/foo/x.rego", "/w/foobar/x.rego", "/w/foo", "/w/x.rego", "/v/x.rego", "/w/foo/bar/baz/x.rego",
		"/w/foo/barbaz/x.rego", "/w/foo/", "/x.rego", "/wx/y.rego", "/w/foo/bar", "/w/f/o.rego"}
	var sel func(k int, cur []string)
	sel = func(k int, cur []string) {
		if len(cur) > 0 {
			for _, p := range paths {
				emit(map[string]any{"kind": "fcmr", "path": p, "roots": cur, "got": FindClosestMatchingRoot(p, cur)})
			}
		}
		if k == 0 {
			return
		}
		for _, r := range rootsU {
			dup := false
			for _, c := range cur {
				dup = dup || c == r
			}
			if !dup {
				sel(k-1, append(append([]string{}, cur...), r))
			}
		}
	}
	if thorough {
		sel(3, nil)
	} else {
		sel(2, nil)
		for i := 0; i < 150; i++ {
			var rs []string
			for j := 0; j < 3+rng.below(2); j++ {
				rs = append(rs, rootsU[rng.below(len(rootsU))])
			}
			p := paths[rng.below(len(paths))]
			emit(map[string]any{"kind": "fcmr", "path": p, "roots": rs, "got": FindClosestMatchingRoot(p, rs)})
		}
	}

	// ---- DirCleanUpPaths on real trees ---------------------------------------------------------
	dirU := []string{"a", "a/b", "a/b/c", "a/d", "e", "e/f", "a/b/c/g"}
	ntrees := 150
	if thorough {
		ntrees = 1500
	}
	for i := 0; i < ntrees; i++ {
		td := t.TempDir()
		real, _ := filepath.EvalSymlinks(td)
		norm := func(p string) string { return "/R" + strings.TrimPrefix(p, real) }
		var files []string
		// the workspace directory itself never becomes empty (the walk stops there)
		os.WriteFile(filepath.Join(real, "keep.txt"), []byte("k"), 0o600)
		for _, d := range dirU {
			if rng.below(3) == 0 {
				continue
			}
			os.MkdirAll(filepath.Join(real, d), 0o755)
			for _, b := range []string{"x.rego", "y.rego"} {
				if rng.below(3) == 0 {
					p := filepath.Join(real, d, b)
					os.WriteFile(p, []byte("x"), 0o600)
					files = append(files, p)
				}
			}
		}
		if rng.below(3) == 0 {
			p := filepath.Join(real, "top.rego")
			os.WriteFile(p, []byte("x"), 0o600)
			files = append(files, p)
		}
		if len(files) == 0 {
			continue
		}
		var roots []string
		for _, r := range []string{"", "a", "a/b", "e", "a/b/c/g", "nonexistent/q"} {
			if rng.below(4) == 0 {
				roots = append(roots, filepath.Join(real, r))
			}
		}
		target := files[rng.below(len(files))]
		// the command removes the file first, then asks which directories became empty
		removeFirst := rng.below(8) > 0
		if removeFirst {
			os.Remove(target)
		}
		var allF, allD []string
		filepath.Walk(real, func(p string, info os.FileInfo, _ error) error {
			if info.IsDir() {
				allD = append(allD, norm(p))
			} else {
				allF = append(allF, norm(p))
			}
			return nil
		})
		sort.Strings(allF)
		sort.Strings(allD)
		got, err := DirCleanUpPaths(target, roots)
		nroots := []string{}
		for _, r := range roots {
			nroots = append(nroots, norm(r))
		}
		ngot := []string{}
		for _, g := range got {
			ngot = append(ngot, norm(g))
		}
		// are the listed directories really removable in that order?
		removable := true
		if err == nil {
			for _, g := range got {
				if e := os.Remove(g); e != nil {
					removable = false
				}
			}
		}
		emit(map[string]any{"kind": "cleanup", "files": allF, "dirs": allD, "roots": nroots, "target": norm(target),
			"removed_first": removeFirst, "got": ngot, "err": err != nil, "removable": removable})
	}
}
