// Overlay test injected into /repo/internal/util (package util) by tools/props/c13.py.
// FindClosestMatchingRoot on generated (path, roots) and DirCleanUpPaths on real temp trees.
package util

import (
	"bufio"
	"encoding/json"
	"os"
	"path/filepath"
	"sort"
	"strconv"
	"strings"
	"testing"
)

type urng struct{ s uint64 }

func (r *urng) next() uint64 {
	r.s += 0x9E3779B97F4A7C15
	z := r.s
	z = (z ^ (z >> 30)) * 0xBF58476D1CE4E5B9
	z = (z ^ (z >> 27)) * 0x94D049BB133111EB
	return z ^ (z >> 31)
}
func (r *urng) below(n int) int { return int(r.next() % uint64(n)) }

func TestVerifC13Util(t *testing.T) {
	outPath := os.Getenv("VERIF_OUT")
	if outPath == "" {
		t.Skip("VERIF_OUT not set")
	}
	seed, _ := strconv.ParseUint(os.Getenv("VERIF_SEED"), 10, 64)
	if seed == 0 {
		seed = 1
	}
	thorough := os.Getenv("VERIF_TIER") == "thorough"
	rng := &urng{s: seed ^ 0xC13C13}
	f, err := os.Create(outPath)
	if err != nil {
		t.Fatal(err)
	}
	defer f.Close()
	w := bufio.NewWriterSize(f, 1<<20)
	defer w.Flush()
	emit := func(v any) {
		b, err := json.Marshal(v)
		if err != nil {
			t.Fatal(err)
		}
		w.Write(b)
		w.WriteByte('\n')
	}

	// ---- FindClosestMatchingRoot: every ordered selection of <=3 roots x every path ---------
	rootsU := []string{"/w", "/w/foo", "/w/foo/", "/w/foobar", "/w/foo/bar", "/", "", "/w/f", "/v", "/w/foo/x.rego"}
	if !thorough {
		rootsU = rootsU[:8]
	}
	paths := []string{"/w/foo/x.rego", "/w/foobar/x.rego", "/w/foo", "/w/x.rego", "/v/x.rego", "/w/foo/bar/baz/x.rego",
		"/w/foo/barbaz/x.rego", "/w/foo/", "/x.rego", "/wx/y.rego", "/w/foo/bar", "/w/f/o.rego"}
	var sel func(k int, cur []string)
	sel = func(k int, cur []string) {
		if len(cur) > 0 {
			for _, p := range paths {
				emit(map[string]any{"kind": "fcmr", "path": p, "roots": cur, "got": FindClosestMatchingRoot(p, cur)})
			}
		}
		if k == 0 {
			return
		}
		for _, r := range rootsU {
			dup := false
			for _, c := range cur {
				dup = dup || c == r
			}
			if !dup {
				sel(k-1, append(append([]string{}, cur...), r))
			}
		}
	}
	if thorough {
		sel(3, nil)
	} else {
		sel(2, nil)
		for i := 0; i < 150; i++ {
			var rs []string
			for j := 0; j < 3+rng.below(2); j++ {
				rs = append(rs, rootsU[rng.below(len(rootsU))])
			}
			p := paths[rng.below(len(paths))]
			emit(map[string]any{"kind": "fcmr", "path": p, "roots": rs, "got": FindClosestMatchingRoot(p, rs)})
		}
	}

	// ---- DirCleanUpPaths on real trees ---------------------------------------------------------
	// The trees hold, next to and below the rego files, everything else a directory can hold: hidden files, data files,
	// sub-directories (empty, with content, hidden), symbolic links to files and to directories.  The observation
	// carries the full listing with the kind of every entry.
	w.Flush()
	cleanupTrees(t, rng, thorough, emit)
}

type centry struct {
	Path string `json:"path"`
	Kind string `json:"kind"` // file | dir | symlink (as os.Lstat sees it)
	To   string `json:"to,omitempty"`
}

type ctree struct {
	Entries     []centry `json:"entries"` // paths normalised to /R/...
	Roots       []string `json:"roots"`
	Target      string   `json:"target"`
	RemoveFirst bool     `json:"removed_first"`
}

func cleanupTrees(t *testing.T, rng *urng, thorough bool, emit func(any)) {
	if rp := os.Getenv("VERIF_C13_REPLAY_CLEANUP"); rp != "" {
		b, err := os.ReadFile(rp)
		if err != nil {
			t.Fatal(err)
		}
		var ct ctree
		if err := json.Unmarshal(b, &ct); err != nil {
			t.Fatal(err)
		}
		runCleanup(t, ct, emit)
		return
	}
	dirU := []string{"a", "a/b", "a/b/c", "a/d", "e", "e/f", "a/b/c/g"}
	ntrees := 220
	if thorough {
		ntrees = 2000
	}
	for i := 0; i < ntrees; i++ {
		ct := ctree{}
		add := func(p, kind, to string) { ct.Entries = append(ct.Entries, centry{Path: "/R/" + p, Kind: kind, To: to}) }
		var regos []string
		// the workspace directory itself never becomes empty (the walk stops there)
		add("keep.txt", "file", "")
		rich := rng.below(3) > 0 // two trees in three carry bystanders
		for _, d := range dirU {
			if rng.below(3) == 0 {
				continue
			}
			add(d, "dir", "")
			for _, b := range []string{"x.rego", "y.rego"} {
				if rng.below(3) == 0 {
					add(d+"/"+b, "file", "")
					regos = append(regos, "/R/"+d+"/"+b)
				}
			}
			if !rich {
				continue
			}
			if rng.below(5) == 0 {
				add(d+"/"+[]string{".gitkeep", ".DS_Store", ".gitignore"}[rng.below(3)], "file", "")
			}
			if rng.below(7) == 0 {
				add(d+"/"+[]string{"data.json", "README"}[rng.below(2)], "file", "")
			}
			if rng.below(8) == 0 {
				add(d+"/sub", "dir", "")
				if rng.below(2) == 0 {
					add(d+"/sub/"+[]string{"data.json", ".gitkeep"}[rng.below(2)], "file", "")
				}
			}
			if rng.below(10) == 0 {
				add(d+"/.cache", "dir", "")
				if rng.below(2) == 0 {
					add(d+"/.cache/blob", "file", "")
				}
			}
			if rng.below(9) == 0 {
				add(d+"/"+[]string{"latest", ".current"}[rng.below(2)], "symlink", []string{"x.rego", "data.json", "../keep.txt"}[rng.below(3)])
			}
			if rng.below(14) == 0 {
				add(d+"/up", "symlink", []string{"..", "."}[rng.below(2)])
			}
		}
		if rng.below(3) == 0 {
			add("top.rego", "file", "")
			regos = append(regos, "/R/top.rego")
		}
		if len(regos) == 0 {
			continue
		}
		for _, r := range []string{"", "a", "a/b", "e", "a/b/c/g", "nonexistent/q"} {
			if rng.below(4) == 0 {
				if r == "" {
					ct.Roots = append(ct.Roots, "/R")
				} else {
					ct.Roots = append(ct.Roots, "/R/"+r)
				}
			}
		}
		ct.Target = regos[rng.below(len(regos))]
		// the command removes the file first, then asks which directories became empty
		ct.RemoveFirst = rng.below(8) > 0
		runCleanup(t, ct, emit)
	}
}

func runCleanup(t *testing.T, ct ctree, emit func(any)) {
	td := t.TempDir()
	real, _ := filepath.EvalSymlinks(td)
	norm := func(p string) string { return "/R" + strings.TrimPrefix(p, real) }
	denorm := func(p string) string { return real + strings.TrimPrefix(p, "/R") }
	for _, e := range ct.Entries {
		p := denorm(e.Path)
		os.MkdirAll(filepath.Dir(p), 0o755)
		switch e.Kind {
		case "dir":
			os.MkdirAll(p, 0o755)
		case "symlink":
			os.Symlink(e.To, p)
		default:
			os.WriteFile(p, []byte("x"), 0o600)
		}
	}
	target := denorm(ct.Target)
	if ct.RemoveFirst {
		os.Remove(target)
	}
	// the listing as it is when the function is called
	var entries []centry
	filepath.Walk(real, func(p string, info os.FileInfo, _ error) error {
		k := "file"
		to := ""
		switch {
		case info.IsDir():
			k = "dir"
		case info.Mode()&os.ModeSymlink != 0:
			k = "symlink"
			to, _ = os.Readlink(p)
		}
		entries = append(entries, centry{Path: norm(p), Kind: k, To: to})
		return nil
	})
	sort.Slice(entries, func(i, j int) bool { return entries[i].Path < entries[j].Path })
	roots := []string{}
	var rroots []string
	for _, r := range ct.Roots {
		roots = append(roots, r)
		rroots = append(rroots, denorm(r))
	}
	got, err := DirCleanUpPaths(target, rroots)
	ngot := []string{}
	for _, g := range got {
		ngot = append(ngot, norm(g))
	}
	// are the listed directories really removable in that order?  what is left in one that is not?
	removable := true
	blocked := []map[string]any{}
	if err == nil {
		if !ct.RemoveFirst {
			os.Remove(target) // the function discounts the target: it is gone before the directories are removed
		}
		for _, g := range got {
			if e := os.Remove(g); e != nil {
				removable = false
				left := []string{}
				if des, e2 := os.ReadDir(g); e2 == nil {
					for _, de := range des {
						left = append(left, de.Name())
					}
				}
				blocked = append(blocked, map[string]any{"dir": norm(g), "left": left})
			}
		}
	}
	emit(map[string]any{"kind": "cleanup", "entries": entries, "roots": roots, "target": ct.Target,
		"removed_first": ct.RemoveFirst, "tree": ct, "got": ngot, "err": err != nil, "removable": removable, "blocked": blocked})
}
