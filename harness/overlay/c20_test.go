package lsp

// Overlay test for C20 (never added to /repo): drives LanguageServer.regoVersionForURI with the
// version maps and files listed in $VERIF_C20_IN and writes what it returned to $VERIF_C20_OUT.

import (
	"context"
	"encoding/json"
	"os"
	"testing"

	"github.com/open-policy-agent/opa/v1/ast"
)

func TestVerifC20(t *testing.T) {
	inPath, outPath := os.Getenv("VERIF_C20_IN"), os.Getenv("VERIF_C20_OUT")
	if inPath == "" {
		t.Skip("no input")
	}
	type kv struct{ K, V string }
	type cs struct {
		M    []kv   `json:"m"`
		Root string `json:"root"`
		URI  string `json:"uri"`
		Got  string `json:"got"`
	}
	var cases []cs
	bs, err := os.ReadFile(inPath)
	if err != nil {
		t.Fatal(err)
	}
	if err := json.Unmarshal(bs, &cases); err != nil {
		t.Fatal(err)
	}
	name := func(v ast.RegoVersion) string {
		switch v {
		case ast.RegoV0:
			return "v0"
		case ast.RegoV1:
			return "v1"
		case ast.RegoUndefined:
			return "undef"
		}
		return "other"
	}
	for i := range cases {
		c := &cases[i]
		ls := NewLanguageServer(context.Background(), &LanguageServerOptions{})
		ls.workspaceRootURI = c.Root
		for _, e := range c.M {
			v := ast.RegoV1
			if e.V == "v0" {
				v = ast.RegoV0
			}
			ls.loadedConfigAllRegoVersions.Set(e.K, v)
		}
		c.Got = name(ls.regoVersionForURI(c.URI))
	}
	out, _ := json.Marshal(cases)
	if err := os.WriteFile(outPath, out, 0o644); err != nil {
		t.Fatal(err)
	}
}
