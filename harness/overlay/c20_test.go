package lsp

// Overlay test for C20 (never added to /repo): drives LanguageServer.regoVersionForURI with the
// version maps and files listed in $VERIF_C20_IN and writes what it returned to $VERIF_C20_OUT.

import (
	"context"
	"encoding/json"
	"os"
	"path/filepath"
	"testing"
	"time"

	"github.com/open-policy-agent/opa/v1/ast"
)

func TestVerifC20(t *testing.T) {
	inPath, outPath := os.Getenv("VERIF_C20_IN"), os.Getenv("VERIF_C20_OUT")
	if inPath == "" {
		t.Skip("no input")
	}
	type kv struct{ K, V string }
	type cs struct {
		M    []kv   `json:"m"`
		Root string `json:"root"`
		URI  string `json:"uri"`
		Got  string `json:"got"`
	}
	var cases []cs
	bs, err := os.ReadFile(inPath)
	if err != nil {
		t.Fatal(err)
	}
	if err := json.Unmarshal(bs, &cases); err != nil {
		t.Fatal(err)
	}
	name := func(v ast.RegoVersion) string {
		switch v {
		case ast.RegoV0:
			return "v0"
		case ast.RegoV1:
			return "v1"
		case ast.RegoUndefined:
			return "undef"
		}
		return "other"
	}
	// one server for all cases: only the workspace root and the directory->version map matter here
	ls := NewLanguageServer(context.Background(), &LanguageServerOptions{})
	for i := range cases {
		c := &cases[i]
		ls.workspaceRootURI = c.Root
		ls.loadedConfigAllRegoVersions.Clear()
		for _, e := range c.M {
			v := ast.RegoV1
			if e.V == "v0" {
				v = ast.RegoV0
			}
			ls.loadedConfigAllRegoVersions.Set(e.K, v)
		}
		c.Got = name(ls.regoVersionForURI(c.URI))
	}
	out, _ := json.Marshal(cases)
	if err := os.WriteFile(outPath, out, 0o644); err != nil {
		t.Fatal(err)
	}
}

// TestVerifC20Reload drives the real config worker through histories of configuration files and records,
// after every (re)load, what regoVersionForURI answers for a fixed set of files.
func TestVerifC20Reload(t *testing.T) {
	inPath, outPath := os.Getenv("VERIF_C20_RELOAD_IN"), os.Getenv("VERIF_C20_RELOAD_OUT")
	if inPath == "" {
		t.Skip("no input")
	}
	type step struct {
		Yaml string            `json:"yaml"`
		Got  map[string]string `json:"got"`
	}
	type hist struct {
		Files []string `json:"files"`
		Steps []step   `json:"steps"`
	}
	var hs []hist
	bs, err := os.ReadFile(inPath)
	if err != nil {
		t.Fatal(err)
	}
	if err := json.Unmarshal(bs, &hs); err != nil {
		t.Fatal(err)
	}
	name := func(v ast.RegoVersion) string {
		switch v {
		case ast.RegoV0:
			return "v0"
		case ast.RegoV1:
			return "v1"
		case ast.RegoUndefined:
			return "undef"
		}
		return "other"
	}
	for hi := range hs {
		h := &hs[hi]
		root := t.TempDir()
		if err := os.MkdirAll(filepath.Join(root, ".regal"), 0o755); err != nil {
			t.Fatal(err)
		}
		cfgPath := filepath.Join(root, ".regal", "config.yaml")
		ctx, cancel := context.WithCancel(context.Background())
		ls := NewLanguageServer(ctx, &LanguageServerOptions{})
		ls.workspaceRootURI = "file://" + root
		go ls.StartConfigWorker(ctx)
		waitCycle := func() bool {
			// one reload cycle sets the directory->version map and, later in the same cycle, stores the built-ins of
			// the capabilities in use: remove that entry, trigger the reload, and wait for it to come back
			const capsURL = "regal:///capabilities/default"
			ls.loadedBuiltins.Delete(capsURL)
			ls.configWatcher.Reload <- cfgPath
			deadline := time.Now().Add(90 * time.Second)
			for {
				if _, ok := ls.loadedBuiltins.Get(capsURL); ok {
					return true
				}
				if time.Now().After(deadline) {
					return false
				}
				time.Sleep(5 * time.Millisecond)
			}
		}
		for si := range h.Steps {
			st := &h.Steps[si]
			if err := os.WriteFile(cfgPath, []byte(st.Yaml), 0o644); err != nil {
				t.Fatal(err)
			}
			st.Got = map[string]string{}
			if !waitCycle() {
				st.Got["<timeout>"] = "timeout"
				continue
			}
			for _, f := range h.Files {
				st.Got[f] = name(ls.regoVersionForURI("file://" + root + f))
			}
		}
		cancel()
	}
	out, _ := json.Marshal(hs)
	if err := os.WriteFile(outPath, out, 0o644); err != nil {
		t.Fatal(err)
	}
}
