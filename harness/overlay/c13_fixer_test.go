// Overlay test injected into /repo/pkg/fixer (package fixer) by tools/props/c13.py with `go test -overlay`.
// It runs the unexported renameCandidate and Fixer.handleRename, and the public InMemoryFileProvider, on
// generated inputs and writes what the implementation did, one JSON object per line, to $VERIF_OUT.
package fixer

import (
	"bufio"
	"encoding/json"
	"errors"
	"os"
	"path/filepath"
	"sort"
	"strconv"
	"strings"
	"testing"
	"time"

	"github.com/styrainc/regal/pkg/fixer/fileprovider"
	"github.com/styrainc/regal/pkg/fixer/fixes"
)

type vrng struct{ s uint64 }

func (r *vrng) next() uint64 {
	r.s += 0x9E3779B97F4A7C15
	z := r.s
	z = (z ^ (z >> 30)) * 0xBF58476D1CE4E5B9
	z = (z ^ (z >> 27)) * 0x94D049BB133111EB
	return z ^ (z >> 31)
}
func (r *vrng) below(n int) int { return int(r.next() % uint64(n)) }
func vchoice[T any](r *vrng, xs []T) T { return xs[r.below(len(xs))] }

// hung is set when a call did not return within the watchdog time (a rename loop without end); the goroutine is
// abandoned and no further sequence is run
var hung bool

func withWatchdog(f func() error) (err error, timedOut bool) {
	done := make(chan error, 1)
	go func() { done <- f() }()
	select {
	case e := <-done:
		return e, false
	case <-time.After(10 * time.Second):
		hung = true
		return nil, true
	}
}

type vop struct {
	Op   string `json:"op"` // put | delete | rename | move
	A    string `json:"a"`
	B    string `json:"b,omitempty"`
	Root string `json:"root,omitempty"`
}

type vconf struct {
	Kind string `json:"kind"` // m2o | src
	Root string `json:"root"`
	To   string `json:"to"`
	From string `json:"from"`
}

func sortedKeys(m map[string]string) [][2]string {
	out := make([][2]string, 0, len(m))
	for k, v := range m {
		out = append(out, [2]string{k, v})
	}
	sort.Slice(out, func(i, j int) bool { return out[i][0] < out[j][0] })
	return out
}

func sorted(xs []string) []string {
	out := append([]string{}, xs...)
	sort.Strings(out)
	return out
}

func conflictsOf(r *Report) []vconf {
	var out []vconf
	for root, m := range r.conflictsManyToOne {
		for to, froms := range m {
			for _, f := range froms {
				out = append(out, vconf{"m2o", root, to, f})
			}
		}
	}
	for root, m := range r.conflictsSourceFile {
		for to, froms := range m {
			for _, f := range froms {
				out = append(out, vconf{"src", root, to, f})
			}
		}
	}
	sort.Slice(out, func(i, j int) bool {
		a, b := out[i], out[j]
		return a.Kind+"\x00"+a.Root+"\x00"+a.To+"\x00"+a.From < b.Kind+"\x00"+b.Root+"\x00"+b.To+"\x00"+b.From
	})
	return out
}

func TestVerifC13(t *testing.T) {
	outPath := os.Getenv("VERIF_OUT")
	if outPath == "" {
		t.Skip("VERIF_OUT not set")
	}
	seed, _ := strconv.ParseUint(os.Getenv("VERIF_SEED"), 10, 64)
	if seed == 0 {
		seed = 1
	}
	thorough := os.Getenv("VERIF_TIER") == "thorough"
	rng := &vrng{s: seed ^ 0xC13}
	f, err := os.Create(outPath)
	if err != nil {
		t.Fatal(err)
	}
	defer f.Close()
	w := bufio.NewWriterSize(f, 1<<20)
	defer w.Flush()
	emit := func(v any) {
		b, err := json.Marshal(v)
		if err != nil {
			t.Fatal(err)
		}
		w.Write(b)
		w.WriteByte('\n')
	}

	// ---- renameCandidate ------------------------------------------------------------------
	dirs := []string{"/R/a/", "/R/", "/", "a/b/", "", "./", "/R/a//", "/R/./a/", "../"}
	stems := []string{"x", "x_1", "x_9", "x_09", "x_007", "x_99", "x_0", "a_b", "x_", "_", "x_1_2", "x_test", "x_1_test",
		"x_test_1", "x_test_test", "_test", "_1_test", "x_9223372036854775807", "x_9223372036854775806", "x_9223372036854775808",
		"x_99999999999999999999", "x_-9223372036854775808", "x\n_1", "x_1\n", "x_\n1", ".hidden", "", "x.y", "x_-5", "x_1.5", "x__3", "1", "_7",
		"x_test_3", "x_3_test_test", "\xff_1", "é_2"}
	exts := []string{".rego", "", ".rego.bak", ".", ".1", "._1", ".rego_1", "_test.rego"}
	seen := map[string]bool{}
	cand := func(in string) {
		if seen[in] {
			return
		}
		seen[in] = true
		emit(map[string]any{"kind": "cand", "in": []byte(in), "out": []byte(renameCandidate(in))})
	}
	for di, d := range dirs {
		for si, s := range stems {
			for _, e := range exts {
				// quick tier: every stem x extension below two directories, every directory with every fourth stem
				if thorough || di < 2 || si%4 == di%4 {
					cand(d + s + e)
				}
			}
		}
	}
	alpha := []string{"x", "_", "t", "e", "s", "1", "9", "0", ".", "-", "\n", "/", "_test", "_1", "_9223372036854775807"}
	nrand := 400
	if thorough {
		nrand = 6000
	}
	for i := 0; i < nrand; i++ {
		n := 1 + rng.below(7)
		var sb strings.Builder
		if rng.below(3) > 0 {
			sb.WriteString("/R/")
		}
		for j := 0; j < n; j++ {
			sb.WriteString(vchoice(rng, alpha))
		}
		cand(sb.String())
	}
	// iterated candidates (the loop of handleRename)
	for _, start := range []string{"/R/a/x.rego", "/R/a/x_test.rego", "/R/a/x_9223372036854775805.rego", "/R/a/x_007_test.rego", "/R/a/x"} {
		cur := start
		for i := 0; i < 6; i++ {
			cand(cur)
			cur = renameCandidate(cur)
		}
	}

	// ---- provider and handleRename on in-memory providers ----------------------------------
	universe := []string{"/R/a/x.rego", "/R/a/x_1.rego", "/R/a/x_2.rego", "/R/b/x.rego", "/R/b/y.rego", "/R/a/x_test.rego", "/R/a/x_1_test.rego"}
	nseq := 500
	if thorough {
		nseq = 6000
	}
	w.Flush()
	for i := 0; i < nseq && !hung; i++ {
		files := map[string]string{}
		for j, p := range universe {
			if rng.below(2) == 0 {
				files[p] = "c" + strconv.Itoa(j)
			}
		}
		init := sortedKeys(files)
		pol := vchoice(rng, []string{"error", "rename"})
		fp := fileprovider.NewInMemoryFileProvider(files)
		starting, _ := fp.List()
		fx := NewFixer()
		if pol == "rename" {
			fx.SetOnConflictOperation(OnConflictRename)
		}
		rep := NewReport()
		nops := 1 + rng.below(7)
		var ops []vop
		status := "ok"
		for k := 0; k < nops && status == "ok"; k++ {
			var op vop
			switch rng.below(10) {
			case 0, 1:
				op = vop{Op: "put", A: vchoice(rng, universe), B: "n" + strconv.Itoa(k)}
				fp.Put(op.A, op.B)
			case 2:
				op = vop{Op: "delete", A: vchoice(rng, universe)}
				fp.Delete(op.A)
			case 3:
				op = vop{Op: "rename", A: vchoice(rng, universe), B: vchoice(rng, universe)}
				err := fp.Rename(op.A, op.B)
				// the result of a raw Rename is part of the observation
				switch {
				case err == nil:
					op.Root = "ok"
				case errors.As(err, &fileprovider.RenameConflictError{}):
					op.Root = "conflict"
				default:
					op.Root = "notfound"
				}
			default:
				op = vop{Op: "move", A: vchoice(rng, universe), B: vchoice(rng, universe), Root: vchoice(rng, []string{"/R", "/R/a"})}
				if cur, _ := fp.List(); len(cur) > 0 && rng.below(5) > 0 { // mostly move files that exist
					sort.Strings(cur)
					op.A = vchoice(rng, cur)
				}
				opc := op
				err, to := withWatchdog(func() error {
					return fx.handleRename(fp, rep, starting, fixes.FixResult{
						Title: "directory-package-mismatch", Root: opc.Root,
						Rename: &fixes.Rename{FromPath: opc.A, ToPath: opc.B},
					})
				})
				if to {
					status = "hang"
				} else if err != nil {
					status = "error"
				}
			}
			ops = append(ops, op)
		}
		if status == "hang" {
			emit(map[string]any{"kind": "seq", "policy": pol, "init": init, "starting": sorted(starting), "ops": ops, "status": status,
				"files": [][2]string{}, "modified": []string{}, "deleted": []string{}, "conflicts": nil, "has_conflicts": false})
			w.Flush()
			return
		}
		emit(map[string]any{"kind": "seq", "policy": pol, "init": init, "starting": sorted(starting), "ops": ops, "status": status,
			"files": sortedKeys(files), "modified": sorted(fp.ModifiedFiles()), "deleted": sorted(fp.DeletedFiles()),
			"conflicts": conflictsOf(rep), "has_conflicts": rep.HasConflicts()})
	}

	// ---- provider created from the file system: targets that exist on disk ----------------
	nfs := 60
	if thorough {
		nfs = 600
	}
	w.Flush()
	for i := 0; i < nfs && !hung; i++ {
		td := t.TempDir()
		real, _ := filepath.EvalSymlinks(td)
		norm := func(p string) string { return "/R" + strings.TrimPrefix(p, real) }
		denorm := func(p string) string { return real + strings.TrimPrefix(p, "/R") }
		var disk, loaded []string
		for j, p := range universe {
			if rng.below(2) == 0 {
				ap := denorm(p)
				os.MkdirAll(filepath.Dir(ap), 0o755)
				os.WriteFile(ap, []byte("c"+strconv.Itoa(j)), 0o600)
				disk = append(disk, p)
				if rng.below(3) > 0 {
					loaded = append(loaded, ap)
				}
			}
		}
		// a directory can occupy a target name too
		if rng.below(4) == 0 {
			os.MkdirAll(denorm("/R/b/x_1.rego"), 0o755)
			disk = append(disk, "/R/b/x_1.rego")
		}
		disk = nil
		filepath.Walk(real, func(p string, _ os.FileInfo, _ error) error {
			disk = append(disk, norm(p))
			return nil
		})
		fp, err := fileprovider.NewInMemoryFileProviderFromFS(loaded...)
		if err != nil {
			t.Fatal(err)
		}
		starting, _ := fp.List()
		pol := vchoice(rng, []string{"error", "rename"})
		fx := NewFixer()
		if pol == "rename" {
			fx.SetOnConflictOperation(OnConflictRename)
		}
		rep := NewReport()
		var init [][2]string
		for _, ap := range loaded {
			c, _ := fp.Get(ap)
			init = append(init, [2]string{norm(ap), c})
		}
		sort.Slice(init, func(a, b int) bool { return init[a][0] < init[b][0] })
		nops := 1 + rng.below(5)
		var ops []vop
		status := "ok"
		for k := 0; k < nops && status == "ok"; k++ {
			op := vop{Op: "move", A: vchoice(rng, universe), B: vchoice(rng, append(universe, "/R/b/x_1.rego")), Root: "/R"}
			if cur, _ := fp.List(); len(cur) > 0 && rng.below(5) > 0 { // mostly move files that are held
				sort.Strings(cur)
				op.A = norm(vchoice(rng, cur))
			}
			opc := op
			err, to := withWatchdog(func() error {
				return fx.handleRename(fp, rep, starting, fixes.FixResult{
					Title: "directory-package-mismatch", Root: denorm(opc.Root),
					Rename: &fixes.Rename{FromPath: denorm(opc.A), ToPath: denorm(opc.B)},
				})
			})
			if to {
				status = "hang"
			} else if err != nil {
				status = "error"
			}
			ops = append(ops, op)
		}
		if status == "hang" {
			emit(map[string]any{"kind": "seq", "policy": pol, "init": init, "starting": []string{}, "disk": sorted(disk), "ops": ops, "status": status,
				"files": [][2]string{}, "modified": []string{}, "deleted": []string{}, "conflicts": nil, "has_conflicts": false})
			w.Flush()
			return
		}
		var filesN [][2]string
		lst, _ := fp.List()
		for _, ap := range lst {
			c, _ := fp.Get(ap)
			filesN = append(filesN, [2]string{norm(ap), c})
		}
		sort.Slice(filesN, func(a, b int) bool { return filesN[a][0] < filesN[b][0] })
		nm := func(xs []string) []string {
			var o []string
			for _, x := range xs {
				o = append(o, norm(x))
			}
			return sorted(o)
		}
		cf := conflictsOf(rep)
		for i := range cf {
			cf[i].Root, cf[i].To, cf[i].From = norm(cf[i].Root), norm(cf[i].To), norm(cf[i].From)
		}
		sort.Slice(cf, func(i, j int) bool {
			a, b := cf[i], cf[j]
			return a.Kind+"\x00"+a.Root+"\x00"+a.To+"\x00"+a.From < b.Kind+"\x00"+b.Root+"\x00"+b.To+"\x00"+b.From
		})
		sn := nm(starting)
		if sn == nil {
			sn = []string{}
		}
		emit(map[string]any{"kind": "seq", "policy": pol, "init": init, "starting": sn, "disk": sorted(disk), "ops": ops, "status": status,
			"files": filesN, "modified": nm(fp.ModifiedFiles()), "deleted": nm(fp.DeletedFiles()),
			"conflicts": cf, "has_conflicts": rep.HasConflicts()})
	}
}
