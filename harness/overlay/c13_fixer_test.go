// Overlay test injected into /repo/pkg/fixer (package fixer) by tools/props/c13.py with `go test -overlay`.
// It runs the unexported renameCandidate and Fixer.handleRename, and the public InMemoryFileProvider, on
// generated inputs and writes what the implementation did, one JSON object per line, to $VERIF_OUT.
package fixer

import (
	"bufio"
	"encoding/json"
	"errors"
	"os"
	"path/filepath"
	"sort"
	"strconv"
	"strings"
	"testing"
	"time"

	"github.com/styrainc/regal/pkg/fixer/fileprovider"
	"github.com/styrainc/regal/pkg/fixer/fixes"
)

type vrng struct{ s uint64 }

func (r *vrng) next() uint64 {
	r.s += 0x9E3779B97F4A7C15
	z := r.s
	z = (z ^ (z >> 30)) * 0xBF58476D1CE4E5B9
	z = (z ^ (z >> 27)) * 0x94D049BB133111EB
	return z ^ (z >> 31)
}
func (r *vrng) below(n int) int { return int(r.next() % uint64(n)) }
func vchoice[T any](r *vrng, xs []T) T { return xs[r.below(len(xs))] }

// hung is set when a call did not return within the watchdog time (a rename loop without end); the goroutine is
// abandoned and no further sequence is run
var hung bool

func withWatchdog(f func() error) (err error, timedOut bool) {
	done := make(chan error, 1)
	go func() { done <- f() }()
	select {
	case e := <-done:
		return e, false
	case <-time.After(10 * time.Second):
		hung = true
		return nil, true
	}
}

type vop struct {
	Op   string `json:"op"` // put | delete | rename | move
	A    string `json:"a"`
	B    string `json:"b,omitempty"`
	Root string `json:"root,omitempty"`
}

type vconf struct {
	Kind string `json:"kind"` // m2o | src
	Root string `json:"root"`
	To   string `json:"to"`
	From string `json:"from"`
}

func sortedKeys(m map[string]string) [][2]string {
	out := make([][2]string, 0, len(m))
	for k, v := range m {
		out = append(out, [2]string{k, v})
	}
	sort.Slice(out, func(i, j int) bool { return out[i][0] < out[j][0] })
	return out
}

func sorted(xs []string) []string {
	out := append([]string{}, xs...)
	sort.Strings(out)
	return out
}

func conflictsOf(r *Report) []vconf {
	var out []vconf
	for root, m := range r.conflictsManyToOne {
		for to, froms := range m {
			for _, f := range froms {
				out = append(out, vconf{"m2o", root, to, f})
			}
		}
	}
	for root, m := range r.conflictsSourceFile {
		for to, froms := range m {
			for _, f := range froms {
				out = append(out, vconf{"src", root, to, f})
			}
		}
	}
	sort.Slice(out, func(i, j int) bool {
		a, b := out[i], out[j]
		return a.Kind+"\x00"+a.Root+"\x00"+a.To+"\x00"+a.From < b.Kind+"\x00"+b.Root+"\x00"+b.To+"\x00"+b.From
	})
	return out
}

func TestVerifC13(t *testing.T) {
	outPath := os.Getenv("VERIF_OUT")
	if outPath == "" {
		t.Skip("VERIF_OUT not set")
	}
	seed, _ := strconv.ParseUint(os.Getenv("VERIF_SEED"), 10, 64)
	if seed == 0 {
		seed = 1
	}
	thorough := os.Getenv("VERIF_TIER") == "thorough"
	rng := &vrng{s: seed ^ 0xC13}
	f, err := os.Create(outPath)
	if err != nil {
		t.Fatal(err)
	}
	defer f.Close()
	w := bufio.NewWriterSize(f, 1<<20)
	defer w.Flush()
	emit := func(v any) {
		b, err := json.Marshal(v)
		if err != nil {
			t.Fatal(err)
		}
		w.Write(b)
		w.WriteByte('\n')
	}

	// ---- replay of one stored history ------------------------------------------------------
	if rp := os.Getenv("VERIF_C13_REPLAY_SEQ"); rp != "" {
		b, err := os.ReadFile(rp)
		if err != nil {
			t.Fatal(err)
		}
		var h history
		if err := json.Unmarshal(b, &h); err != nil {
			t.Fatal(err)
		}
		emit(runHistory(t, h))
		return
	}

	// ---- renameCandidate ------------------------------------------------------------------
	dirs := []string{"/R/a/", "/R/", "/", "a/b/", "", "./", "/R/a//", "/R/./a/", "../"}
	stems := []string{"x", "x_1", "x_9", "x_09", "x_007", "x_99", "x_0", "a_b", "x_", "_", "x_1_2", "x_test", "x_1_test",
		"x_test_1", "x_test_test", "_test", "_1_test", "x_9223372036854775807", "x_9223372036854775806", "x_9223372036854775808",
		"x_99999999999999999999", "x_-9223372036854775808", "x\n_1", "x_1\n", "x_\n1", ".hidden", "", "x.y", "x_-5", "x_1.5", "x__3", "1", "_7",
		"x_test_3", "x_3_test_test", "\xff_1", "é_2"}
	exts := []string{".rego", "", ".rego.bak", ".", ".1", "._1", ".rego_1", "_test.rego"}
	seen := map[string]bool{}
	cand := func(in string) {
		if seen[in] {
			return
		}
		seen[in] = true
		emit(map[string]any{"kind": "cand", "in": []byte(in), "out": []byte(renameCandidate(in))})
	}
	for di, d := range dirs {
		for si, s := range stems {
			for _, e := range exts {
				// quick tier: every stem x extension below two directories, every directory with every fourth stem
				if thorough || di < 2 || si%4 == di%4 {
					cand(d + s + e)
				}
			}
		}
	}
	alpha := []string{"x", "_", "t", "e", "s", "1", "9", "0", ".", "-", "\n", "/", "_test", "_1", "_9223372036854775807"}
	nrand := 400
	if thorough {
		nrand = 6000
	}
	for i := 0; i < nrand; i++ {
		n := 1 + rng.below(7)
		var sb strings.Builder
		if rng.below(3) > 0 {
			sb.WriteString("/R/")
		}
		for j := 0; j < n; j++ {
			sb.WriteString(vchoice(rng, alpha))
		}
		cand(sb.String())
	}
	// iterated candidates (the loop of handleRename)
	for _, start := range []string{"/R/a/x.rego", "/R/a/x_test.rego", "/R/a/x_9223372036854775805.rego", "/R/a/x_007_test.rego", "/R/a/x"} {
		cur := start
		for i := 0; i < 6; i++ {
			cand(cur)
			cur = renameCandidate(cur)
		}
	}

	// ---- provider and handleRename on in-memory providers ----------------------------------
	universe := []string{"/R/a/x.rego", "/R/a/x_1.rego", "/R/a/x_2.rego", "/R/b/x.rego", "/R/b/y.rego", "/R/a/x_test.rego", "/R/a/x_1_test.rego"}
	nseq := 500
	if thorough {
		nseq = 6000
	}
	w.Flush()
	for i := 0; i < nseq && !hung; i++ {
		files := map[string]string{}
		for j, p := range universe {
			if rng.below(2) == 0 {
				files[p] = "c" + strconv.Itoa(j)
			}
		}
		init := sortedKeys(files)
		pol := vchoice(rng, []string{"error", "rename"})
		fp := fileprovider.NewInMemoryFileProvider(files)
		starting, _ := fp.List()
		fx := NewFixer()
		if pol == "rename" {
			fx.SetOnConflictOperation(OnConflictRename)
		}
		rep := NewReport()
		nops := 1 + rng.below(7)
		var ops []vop
		status := "ok"
		for k := 0; k < nops && status == "ok"; k++ {
			var op vop
			switch rng.below(10) {
			case 0, 1:
				op = vop{Op: "put", A: vchoice(rng, universe), B: "n" + strconv.Itoa(k)}
				fp.Put(op.A, op.B)
			case 2:
				op = vop{Op: "delete", A: vchoice(rng, universe)}
				fp.Delete(op.A)
			case 3:
				op = vop{Op: "rename", A: vchoice(rng, universe), B: vchoice(rng, universe)}
				err := fp.Rename(op.A, op.B)
				// the result of a raw Rename is part of the observation
				switch {
				case err == nil:
					op.Root = "ok"
				case errors.As(err, &fileprovider.RenameConflictError{}):
					op.Root = "conflict"
				default:
					op.Root = "notfound"
				}
			default:
				op = vop{Op: "move", A: vchoice(rng, universe), B: vchoice(rng, universe), Root: vchoice(rng, []string{"/R", "/R/a"})}
				if cur, _ := fp.List(); len(cur) > 0 && rng.below(5) > 0 { // mostly move files that exist
					sort.Strings(cur)
					op.A = vchoice(rng, cur)
				}
				opc := op
				err, to := withWatchdog(func() error {
					return fx.handleRename(fp, rep, starting, fixes.FixResult{
						Title: "directory-package-mismatch", Root: opc.Root,
						Rename: &fixes.Rename{FromPath: opc.A, ToPath: opc.B},
					})
				})
				if to {
					status = "hang"
				} else if err != nil {
					status = "error"
				}
			}
			ops = append(ops, op)
		}
		if status == "hang" {
			emit(map[string]any{"kind": "seq", "policy": pol, "init": init, "starting": sorted(starting), "ops": ops, "status": status,
				"files": [][2]string{}, "modified": []string{}, "deleted": []string{}, "conflicts": nil, "has_conflicts": false})
			w.Flush()
			return
		}
		emit(map[string]any{"kind": "seq", "policy": pol, "init": init, "starting": sorted(starting), "ops": ops, "status": status,
			"files": sortedKeys(files), "modified": sorted(fp.ModifiedFiles()), "deleted": sorted(fp.DeletedFiles()),
			"conflicts": conflictsOf(rep), "has_conflicts": rep.HasConflicts()})
	}

	// ---- provider created from the file system: targets that exist on disk ----------------
	nfs := 60
	if thorough {
		nfs = 600
	}
	w.Flush()
	for i := 0; i < nfs && !hung; i++ {
		td := t.TempDir()
		real, _ := filepath.EvalSymlinks(td)
		norm := func(p string) string { return "/R" + strings.TrimPrefix(p, real) }
		denorm := func(p string) string { return real + strings.TrimPrefix(p, "/R") }
		var disk, loaded []string
		for j, p := range universe {
			if rng.below(2) == 0 {
				ap := denorm(p)
				os.MkdirAll(filepath.Dir(ap), 0o755)
				os.WriteFile(ap, []byte("c"+strconv.Itoa(j)), 0o600)
				disk = append(disk, p)
				if rng.below(3) > 0 {
					loaded = append(loaded, ap)
				}
			}
		}
		// a directory can occupy a target name too
		if rng.below(4) == 0 {
			os.MkdirAll(denorm("/R/b/x_1.rego"), 0o755)
			disk = append(disk, "/R/b/x_1.rego")
		}
		disk = nil
		filepath.Walk(real, func(p string, _ os.FileInfo, _ error) error {
			disk = append(disk, norm(p))
			return nil
		})
		fp, err := fileprovider.NewInMemoryFileProviderFromFS(loaded...)
		if err != nil {
			t.Fatal(err)
		}
		starting, _ := fp.List()
		pol := vchoice(rng, []string{"error", "rename"})
		fx := NewFixer()
		if pol == "rename" {
			fx.SetOnConflictOperation(OnConflictRename)
		}
		rep := NewReport()
		var init [][2]string
		for _, ap := range loaded {
			c, _ := fp.Get(ap)
			init = append(init, [2]string{norm(ap), c})
		}
		sort.Slice(init, func(a, b int) bool { return init[a][0] < init[b][0] })
		nops := 1 + rng.below(5)
		var ops []vop
		status := "ok"
		for k := 0; k < nops && status == "ok"; k++ {
			op := vop{Op: "move", A: vchoice(rng, universe), B: vchoice(rng, append(universe, "/R/b/x_1.rego")), Root: "/R"}
			if cur, _ := fp.List(); len(cur) > 0 && rng.below(5) > 0 { // mostly move files that are held
				sort.Strings(cur)
				op.A = norm(vchoice(rng, cur))
			}
			opc := op
			err, to := withWatchdog(func() error {
				return fx.handleRename(fp, rep, starting, fixes.FixResult{
					Title: "directory-package-mismatch", Root: denorm(opc.Root),
					Rename: &fixes.Rename{FromPath: denorm(opc.A), ToPath: denorm(opc.B)},
				})
			})
			if to {
				status = "hang"
			} else if err != nil {
				status = "error"
			}
			ops = append(ops, op)
		}
		if status == "hang" {
			emit(map[string]any{"kind": "seq", "policy": pol, "init": init, "starting": []string{}, "disk": sorted(disk), "ops": ops, "status": status,
				"files": [][2]string{}, "modified": []string{}, "deleted": []string{}, "conflicts": nil, "has_conflicts": false})
			w.Flush()
			return
		}
		var filesN [][2]string
		lst, _ := fp.List()
		for _, ap := range lst {
			c, _ := fp.Get(ap)
			filesN = append(filesN, [2]string{norm(ap), c})
		}
		sort.Slice(filesN, func(a, b int) bool { return filesN[a][0] < filesN[b][0] })
		nm := func(xs []string) []string {
			var o []string
			for _, x := range xs {
				o = append(o, norm(x))
			}
			return sorted(o)
		}
		cf := conflictsOf(rep)
		for i := range cf {
			cf[i].Root, cf[i].To, cf[i].From = norm(cf[i].Root), norm(cf[i].To), norm(cf[i].From)
		}
		sort.Slice(cf, func(i, j int) bool {
			a, b := cf[i], cf[j]
			return a.Kind+"\x00"+a.Root+"\x00"+a.To+"\x00"+a.From < b.Kind+"\x00"+b.Root+"\x00"+b.To+"\x00"+b.From
		})
		sn := nm(starting)
		if sn == nil {
			sn = []string{}
		}
		emit(map[string]any{"kind": "seq", "policy": pol, "init": init, "starting": sn, "disk": sorted(disk), "ops": ops, "status": status,
			"files": filesN, "modified": nm(fp.ModifiedFiles()), "deleted": nm(fp.DeletedFiles()),
			"conflicts": cf, "has_conflicts": rep.HasConflicts()})
	}

	// ---- histories: the moves of one fix run, handled in a CHOSEN order ---------------------------
	// In a real run every file is moved at most once, from where it was loaded to the place its package asks for; the
	// order in which the fixer gets to the files is the order of the linter's violations, which differs from run to
	// run.  Here the order is explicit: every permutation of small shapes (chains, collisions at a vacated link,
	// swaps), and random ones.
	w.Flush()
	for _, h := range histories(rng, thorough) {
		if hung {
			break
		}
		emit(runHistory(t, h))
	}
}

type hmove struct {
	From string `json:"from"`
	To   string `json:"to"`
}

// history: files (path -> content) held by the provider, further entries on disk that are not loaded, and the moves
type history struct {
	Shape    string      `json:"shape"`
	Policy   string      `json:"policy"`
	Disk     bool        `json:"disk"`     // provider created from a real temp tree (NewInMemoryFileProviderFromFS)
	Init     [][2]string `json:"init"`     // loaded files: /R/... -> content
	Unloaded []string    `json:"unloaded"` // on disk, not loaded (Disk only)
	Moves    []hmove     `json:"moves"`
}

func permutations(n int) [][]int {
	if n == 0 {
		return [][]int{{}}
	}
	var out [][]int
	for _, p := range permutations(n - 1) {
		for i := 0; i <= len(p); i++ {
			q := append(append(append([]int{}, p[:i]...), n-1), p[i:]...)
			out = append(out, q)
		}
	}
	return out
}

func histories(rng *vrng, thorough bool) []history {
	type shape struct {
		name     string
		files    [][2]string // path, target ("" = stays)
		unloaded []string
	}
	P, Q, S := "/R/a/x.rego", "/R/q/x.rego", "/R/s/x.rego"
	shapes := []shape{
		{"chain+collision-at-vacated", [][2]string{{P, Q}, {"/R/b/x.rego", P}, {"/R/c/x.rego", P}}, nil},
		{"chain+collision,target-on-disk", [][2]string{{P, Q}, {"/R/b/x.rego", P}, {"/R/c/x.rego", P}}, []string{Q}},
		{"chain+collision,bystander-holds-next-name", [][2]string{{P, Q}, {"/R/b/x.rego", P}, {"/R/c/x.rego", P}, {"/R/a/x_1.rego", ""}}, nil},
		{"chain+three-contenders", [][2]string{{P, Q}, {"/R/b/x.rego", P}, {"/R/c/x.rego", P}, {"/R/d/x.rego", P}}, nil},
		{"swap+collision", [][2]string{{P, Q}, {Q, P}, {"/R/c/x.rego", P}}, nil},
		{"chain3+collision-in-the-middle", [][2]string{{P, Q}, {Q, S}, {"/R/c/x.rego", Q}, {"/R/d/x.rego", P}}, nil},
		{"collision-then-vacate", [][2]string{{"/R/b/x_test.rego", "/R/a/x_test.rego"}, {"/R/c/x_test.rego", "/R/a/x_test.rego"}, {"/R/a/x_test.rego", "/R/q/x_test.rego"}}, nil},
		{"plain-chain", [][2]string{{P, Q}, {Q, S}, {"/R/c/x.rego", P}}, nil},
	}
	var out []history
	mk := func(name string, files [][2]string, unloaded []string, order []int, pol string, disk bool) {
		h := history{Shape: name, Policy: pol, Disk: disk, Unloaded: unloaded}
		var moving []hmove
		for j, f := range files {
			h.Init = append(h.Init, [2]string{f[0], "c" + strconv.Itoa(j)})
			if f[1] != "" {
				moving = append(moving, hmove{f[0], f[1]})
			}
		}
		for _, k := range order {
			h.Moves = append(h.Moves, moving[k])
		}
		if !disk {
			h.Unloaded = nil
		}
		if len(h.Moves) == 0 {
			return
		}
		out = append(out, h)
	}
	for _, sh := range shapes {
		nm := 0
		for _, f := range sh.files {
			if f[1] != "" {
				nm++
			}
		}
		for _, order := range permutations(nm) {
			for _, pol := range []string{"error", "rename"} {
				for _, disk := range []bool{false, true} {
					if !disk && len(sh.unloaded) > 0 {
						continue
					}
					mk(sh.name, sh.files, sh.unloaded, order, pol, disk)
				}
			}
		}
	}
	// random: 3-5 files on distinct paths, targets biased towards the places of the others
	places := []string{"/R/a/x.rego", "/R/b/x.rego", "/R/c/x.rego", "/R/q/x.rego", "/R/a/x_1.rego", "/R/b/x_1.rego", "/R/a/y.rego", "/R/q/x_test.rego"}
	nrand := 120
	if thorough {
		nrand = 2500
	}
	for i := 0; i < nrand; i++ {
		idx := []int{}
		for j := range places {
			idx = append(idx, j)
		}
		for j := len(idx) - 1; j > 0; j-- {
			k := rng.below(j + 1)
			idx[j], idx[k] = idx[k], idx[j]
		}
		n := 3 + rng.below(3)
		var files [][2]string
		for j := 0; j < n; j++ {
			to := ""
			switch rng.below(6) {
			case 0:
			case 1:
				to = places[idx[n+rng.below(len(places)-n)]] // a free place
			default:
				to = places[idx[rng.below(n)]] // the place of another file (or its own: then it stays)
			}
			if to == places[idx[j]] {
				to = ""
			}
			files = append(files, [2]string{places[idx[j]], to})
		}
		nm := 0
		for _, f := range files {
			if f[1] != "" {
				nm++
			}
		}
		order := make([]int, nm)
		for j := range order {
			order[j] = j
		}
		for j := nm - 1; j > 0; j-- {
			k := rng.below(j + 1)
			order[j], order[k] = order[k], order[j]
		}
		var unloaded []string
		disk := rng.below(2) == 0
		if disk && rng.below(2) == 0 {
			unloaded = []string{places[idx[n+rng.below(len(places)-n)]]}
		}
		mk("random", files, unloaded, order, vchoice(rng, []string{"error", "rename"}), disk)
	}
	return out
}

func runHistory(t *testing.T, h history) map[string]any {
	norm := func(p string) string { return p }
	denorm := func(p string) string { return p }
	var fp *fileprovider.InMemoryFileProvider
	disk := []string{}
	if h.Disk {
		td := t.TempDir()
		real, _ := filepath.EvalSymlinks(td)
		norm = func(p string) string { return "/R" + strings.TrimPrefix(p, real) }
		denorm = func(p string) string { return real + strings.TrimPrefix(p, "/R") }
		var loaded []string
		for _, kv := range h.Init {
			ap := denorm(kv[0])
			os.MkdirAll(filepath.Dir(ap), 0o755)
			os.WriteFile(ap, []byte(kv[1]), 0o600)
			loaded = append(loaded, ap)
		}
		for _, u := range h.Unloaded {
			ap := denorm(u)
			os.MkdirAll(filepath.Dir(ap), 0o755)
			os.WriteFile(ap, []byte("unloaded"), 0o600)
		}
		filepath.Walk(real, func(p string, _ os.FileInfo, _ error) error {
			disk = append(disk, norm(p))
			return nil
		})
		var err error
		fp, err = fileprovider.NewInMemoryFileProviderFromFS(loaded...)
		if err != nil {
			t.Fatal(err)
		}
	} else {
		files := map[string]string{}
		for _, kv := range h.Init {
			files[kv[0]] = kv[1]
		}
		fp = fileprovider.NewInMemoryFileProvider(files)
	}
	starting, _ := fp.List()
	fx := NewFixer()
	if h.Policy == "rename" {
		fx.SetOnConflictOperation(OnConflictRename)
	}
	rep := NewReport()
	init := append([][2]string{}, h.Init...)
	sort.Slice(init, func(a, b int) bool { return init[a][0] < init[b][0] })
	var ops []vop
	status := "ok"
	for _, m := range h.Moves {
		if status != "ok" {
			break
		}
		op := vop{Op: "move", A: m.From, B: m.To, Root: "/R"}
		err, to := withWatchdog(func() error {
			return fx.handleRename(fp, rep, starting, fixes.FixResult{
				Title: "directory-package-mismatch", Root: denorm("/R"),
				Rename: &fixes.Rename{FromPath: denorm(m.From), ToPath: denorm(m.To)},
			})
		})
		if to {
			status = "hang"
		} else if err != nil {
			status = "error"
		}
		ops = append(ops, op)
	}
	nm := func(xs []string) []string {
		o := []string{}
		for _, x := range xs {
			o = append(o, norm(x))
		}
		return sorted(o)
	}
	if status == "hang" {
		return map[string]any{"kind": "seq", "policy": h.Policy, "init": init, "starting": nm(starting), "disk": sorted(disk), "ops": ops, "status": status,
			"files": [][2]string{}, "modified": []string{}, "deleted": []string{}, "conflicts": nil, "has_conflicts": false, "hist": h}
	}
	filesN := [][2]string{}
	lst, _ := fp.List()
	for _, ap := range lst {
		c, _ := fp.Get(ap)
		filesN = append(filesN, [2]string{norm(ap), c})
	}
	sort.Slice(filesN, func(a, b int) bool { return filesN[a][0] < filesN[b][0] })
	cf := conflictsOf(rep)
	for i := range cf {
		cf[i].Root, cf[i].To, cf[i].From = norm(cf[i].Root), norm(cf[i].To), norm(cf[i].From)
	}
	sort.Slice(cf, func(i, j int) bool {
		a, b := cf[i], cf[j]
		return a.Kind+"\x00"+a.Root+"\x00"+a.To+"\x00"+a.From < b.Kind+"\x00"+b.Root+"\x00"+b.To+"\x00"+b.From
	})
	return map[string]any{"kind": "seq", "policy": h.Policy, "init": init, "starting": nm(starting), "disk": sorted(disk), "ops": ops, "status": status,
		"files": filesN, "modified": nm(fp.ModifiedFiles()), "deleted": nm(fp.DeletedFiles()),
		"conflicts": cf, "has_conflicts": rep.HasConflicts(), "hist": h}
}
