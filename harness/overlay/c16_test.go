package lsp

// Overlay test of the C16 check (never added to /repo; injected with `go test -overlay`).
// Reads cases (JSON lines) from $VERIF_C16_IN, runs the real ComputeEdits on each pair and
// writes, per case, the edit list plus the verdict of an independent LSP-3.17 application of
// those edits (written here from the specification, not from diff.go) to $VERIF_C16_OUT.
//
// History independence (seed round 3): C16 quantifies over pairs, so ComputeEdits has to be a FUNCTION of
// the pair.  Every case is therefore evaluated several times in this one process, at different positions
// of different call orders ($VERIF_C16_PLAN: reverse order, after a "polluting" pair with a long common
// prefix, shuffled, twice in a row, and from several goroutines at once, which is how the server calls
// it); every evaluation must give the result of the first one (which Coq compares with the model), a
// panic inside ComputeEdits is recovered per evaluation and recorded, and a deviation is reported with
// the calls that preceded it in the same goroutine.  $VERIF_C16_SEQ switches to the replay mode: every
// input line is a SEQUENCE of pairs which is evaluated in order on one OS thread without garbage
// collections in between; $VERIF_C16_JOURNAL names the evaluation in flight should the process die.

import (
	"bufio"
	"bytes"
	"encoding/hex"
	"encoding/json"
	"fmt"
	"os"
	"runtime"
	"runtime/debug"
	"sort"
	"sync"
	"testing"
	"unicode/utf8"

	"github.com/open-policy-agent/opa/v1/format"

	"github.com/styrainc/regal/internal/lsp/types"
)

type verifC16In struct {
	ID     int    `json:"id"`
	Mode   string `json:"mode"` // "pair" | "fmt" (after = opa fmt of before)
	Before string `json:"before"`
	After  string `json:"after"` // hex
}

type verifC16Out struct {
	ID      int      `json:"id"`
	After   string   `json:"after,omitempty"` // hex, only for mode fmt
	Skip    string   `json:"skip,omitempty"`
	Panic   string   `json:"panic,omitempty"`
	Edits   [][5]any `json:"edits"` // sl, sc, el, ec, hex(text)
	Applied bool     `json:"applied"`
	Result  string   `json:"result,omitempty"` // hex of the wrongly applied text (only when !applied)
	Sorted  bool     `json:"sorted"`
	Disj    bool     `json:"disjoint"`
	InDoc   bool     `json:"indoc"`  // every line <= last line index, +1 when the last line is unterminated
	Strict  bool     `json:"strict"` // every line is an existing line index (no reliance on the clamp)
	Char0   bool     `json:"char0"`
	Closed  bool     `json:"closed"` // before is empty or ends with a line terminator
	ApplErr string   `json:"applerr,omitempty"`
	NLines  int      `json:"nlines"`
}

// verifLineStarts: byte offsets at which the lines of text start; LSP 3.17 EOL = \n, \r\n, \r.
func verifLineStarts(text string) []int {
	starts := []int{0}

	for i := 0; i < len(text); i++ {
		switch text[i] {
		case '\n':
			starts = append(starts, i+1)
		case '\r':
			if i+1 < len(text) && text[i+1] == '\n' {
				continue
			}

			starts = append(starts, i+1)
		}
	}

	return starts
}

// verifOffset resolves a position in text: a line past the end is the end of the document, a
// character past the end of the line is the end of the line; characters are UTF-16 code units.
func verifOffset(text string, starts []int, p types.Position) int {
	if int(p.Line) >= len(starts) || p.Line > uint(len(text)) {
		return len(text)
	}

	off := starts[p.Line]
	end := len(text)

	if int(p.Line)+1 < len(starts) {
		end = starts[p.Line+1]
		// exclude the terminator
		for end > off && (text[end-1] == '\n' || text[end-1] == '\r') {
			end--
		}
	}

	units := uint(0)
	for off < end && units < p.Character {
		r, sz := utf8.DecodeRuneInString(text[off:])
		if r >= 0x10000 {
			units += 2
		} else {
			units++
		}

		off += sz
	}

	return off
}

type verifSpan struct {
	so, eo int
	text   string
}

func verifApply(text string, edits []types.TextEdit) (string, bool, bool, string) {
	starts := verifLineStarts(text)
	spans := make([]verifSpan, 0, len(edits))
	sorted := true

	for i, e := range edits {
		s := verifSpan{verifOffset(text, starts, e.Range.Start), verifOffset(text, starts, e.Range.End), e.NewText}
		if i > 0 && spans[i-1].so > s.so {
			sorted = false
		}

		spans = append(spans, s)
	}

	sort.SliceStable(spans, func(i, j int) bool { return spans[i].so < spans[j].so })

	disjoint := true
	pos := 0
	out := make([]byte, 0, len(text))

	for _, s := range spans {
		if s.so > s.eo || s.so < pos {
			disjoint = false

			return "", sorted, disjoint, "overlapping or inverted range"
		}

		out = append(out, text[pos:s.so]...)
		out = append(out, s.text...)
		pos = s.eo
	}

	out = append(out, text[pos:]...)

	return string(out), sorted, disjoint, ""
}

func verifRunOne(c verifC16In) (o verifC16Out) {
	o.ID = c.ID

	bb, err1 := hex.DecodeString(c.Before)
	ab, err2 := hex.DecodeString(c.After)

	if err1 != nil || err2 != nil {
		o.Skip = "bad hex"

		return o
	}

	before, after := string(bb), string(ab)

	if c.Mode == "fmt" {
		f, err := format.Source("p.rego", bb)
		if err != nil {
			o.Skip = "fmt error"

			return o
		}

		after = string(f)
		o.After = hex.EncodeToString(f)
	}

	defer func() {
		if r := recover(); r != nil {
			o.Panic = fmt.Sprint(r)
		}
	}()

	edits := ComputeEdits(before, after)
	o.Edits = make([][5]any, 0, len(edits))

	starts := verifLineStarts(before)
	last := len(starts) - 1 // index of the last line (possibly the empty line after a final EOL)
	maxLine := last

	o.Closed = true

	if n := len(before); n > 0 && before[n-1] != '\n' && before[n-1] != '\r' {
		maxLine = last + 1 // unterminated last line: one past is the clamped end of document
		o.Closed = false
	}

	o.NLines = len(splitLines(before))
	o.InDoc, o.Strict, o.Char0 = true, true, true

	for _, e := range edits {
		o.Edits = append(o.Edits, [5]any{
			e.Range.Start.Line, e.Range.Start.Character, e.Range.End.Line, e.Range.End.Character,
			hex.EncodeToString([]byte(e.NewText)),
		})

		for _, p := range []types.Position{e.Range.Start, e.Range.End} {
			if p.Line > uint(maxLine) {
				o.InDoc = false
			}

			if p.Line > uint(last) {
				o.Strict = false
			}

			if p.Character != 0 {
				o.Char0 = false
			}
		}
	}

	res, sorted, disj, aerr := verifApply(before, edits)
	o.Sorted, o.Disj, o.ApplErr = sorted, disj, aerr
	o.Applied = aerr == "" && res == after

	if !o.Applied {
		o.Result = hex.EncodeToString([]byte(res))
	}

	return o
}

type verifPlan struct {
	Runs []struct {
		Name       string `json:"name"`
		Goroutines int    `json:"goroutines"`
		Order      []int  `json:"order"` // >= 0: index into the cases; -(k+1): polluter k
	} `json:"runs"`
	Polluters []verifC16In `json:"polluters"`
}

type verifDeviation struct {
	Run  string      `json:"run"`
	Pos  int         `json:"pos"`
	Prev []int       `json:"prev"` // the calls before it in the same goroutine, nearest first (plan entries)
	Rec  verifC16Out `json:"rec"`
}

type verifC16Full struct {
	verifC16Out
	Evals int              `json:"evals"`
	NDev  int              `json:"ndev"`
	Dev   []verifDeviation `json:"dev,omitempty"`
}

type verifSeqIn struct {
	ID  int          `json:"id"`
	Seq []verifC16In `json:"seq"`
}

type verifSeqOut struct {
	ID   int           `json:"id"`
	Recs []verifC16Out `json:"recs"`
}

func verifSame(a, b verifC16Out) bool {
	a.ID, b.ID = 0, 0
	x, _ := json.Marshal(a)
	y, _ := json.Marshal(b)

	return bytes.Equal(x, y)
}

func verifJournal() func(string) {
	p := os.Getenv("VERIF_C16_JOURNAL")
	if p == "" {
		return func(string) {}
	}

	f, err := os.OpenFile(p, os.O_CREATE|os.O_WRONLY|os.O_TRUNC, 0o644)
	if err != nil {
		return func(string) {}
	}

	var mu sync.Mutex

	return func(s string) { // unbuffered: survives the death of the process
		mu.Lock()
		_, _ = f.WriteString(s + "\n")
		mu.Unlock()
	}
}

func verifReadLines(t *testing.T, path string, each func([]byte)) {
	f, err := os.Open(path)
	if err != nil {
		t.Fatal(err)
	}
	defer f.Close()

	sc := bufio.NewScanner(f)
	sc.Buffer(make([]byte, 1<<20), 1<<28)

	for sc.Scan() {
		each(append([]byte(nil), sc.Bytes()...))
	}

	if err := sc.Err(); err != nil {
		t.Fatal(err)
	}
}

// verifSequences: the replay mode.  Between two sequences the pools are emptied (two collections); inside a
// sequence nothing is collected and the goroutine stays on its thread, so that what one call leaves behind
// is what the next one finds.
func verifSequences(t *testing.T, in, out string) {
	w, err := os.Create(out)
	if err != nil {
		t.Fatal(err)
	}
	defer w.Close()

	bw := bufio.NewWriterSize(w, 1<<20)
	defer bw.Flush()

	journal := verifJournal()

	runtime.LockOSThread()
	defer runtime.UnlockOSThread()

	verifReadLines(t, in, func(line []byte) {
		var c verifSeqIn
		if err := json.Unmarshal(line, &c); err != nil {
			t.Fatal(err)
		}

		runtime.GC()
		runtime.GC()

		old := debug.SetGCPercent(-1)
		o := verifSeqOut{ID: c.ID}

		for k, p := range c.Seq {
			journal(fmt.Sprintf("seq %d element %d", c.ID, k))
			p.ID = k
			o.Recs = append(o.Recs, verifRunOne(p))
		}

		debug.SetGCPercent(old)

		b, err := json.Marshal(o)
		if err != nil {
			t.Fatal(err)
		}

		bw.Write(b)
		bw.WriteByte('\n')
	})
}

func TestVerifC16(t *testing.T) {
	in, out := os.Getenv("VERIF_C16_IN"), os.Getenv("VERIF_C16_OUT")
	if in == "" || out == "" {
		t.Skip("VERIF_C16_IN / VERIF_C16_OUT not set")
	}

	if os.Getenv("VERIF_C16_SEQ") != "" {
		verifSequences(t, in, out)

		return
	}

	t.Parallel() // next to TestVerifC16Server (c16_server_test.go) when both are selected

	var cases []verifC16In

	verifReadLines(t, in, func(line []byte) {
		var c verifC16In
		if err := json.Unmarshal(line, &c); err != nil {
			t.Fatal(err)
		}

		cases = append(cases, c)
	})

	var plan verifPlan

	if pp := os.Getenv("VERIF_C16_PLAN"); pp != "" {
		b, err := os.ReadFile(pp)
		if err != nil {
			t.Fatal(err)
		}

		if err := json.Unmarshal(b, &plan); err != nil {
			t.Fatal(err)
		}
	}

	journal := verifJournal()
	res := make([]verifC16Full, len(cases))

	// run 0: every case once, in the order given; these are the results compared with the model
	for i := range cases {
		journal(fmt.Sprintf("forward %d %d", i, cases[i].ID))

		o := verifRunOne(cases[i])
		if cases[i].Mode == "fmt" && o.Skip == "" { // the formatter ran once: from now on a plain pair
			cases[i].Mode, cases[i].After = "pair", o.After
		}

		res[i] = verifC16Full{verifC16Out: o, Evals: 1}
	}

	var mu sync.Mutex

	for _, run := range plan.Runs {
		g := run.Goroutines
		if g < 1 {
			g = 1
		}

		var wg sync.WaitGroup

		chunk := (len(run.Order) + g - 1) / g

		for k := 0; k < g; k++ {
			lo, hi := k*chunk, (k+1)*chunk
			if lo > len(run.Order) {
				lo = len(run.Order)
			}

			if hi > len(run.Order) {
				hi = len(run.Order)
			}

			wg.Add(1)

			go func(lo, hi int) {
				defer wg.Done()

				for pos := lo; pos < hi; pos++ {
					e := run.Order[pos]
					if g == 1 {
						journal(fmt.Sprintf("%s %d %d", run.Name, pos, e))
					}

					if e < 0 {
						if k := -e - 1; k < len(plan.Polluters) {
							_ = verifRunOne(plan.Polluters[k])
						}

						continue
					}

					if e >= len(cases) || res[e].Skip != "" {
						continue
					}

					o := verifRunOne(cases[e])
					o.After = res[e].After
					same := verifSame(o, res[e].verifC16Out)

					mu.Lock()
					res[e].Evals++

					if !same {
						res[e].NDev++

						if len(res[e].Dev) < 3 {
							d := verifDeviation{Run: run.Name, Pos: pos, Rec: o}
							for q := pos - 1; q >= lo && len(d.Prev) < 3; q-- {
								d.Prev = append(d.Prev, run.Order[q])
							}

							res[e].Dev = append(res[e].Dev, d)
						}
					}
					mu.Unlock()
				}
			}(lo, hi)
		}

		wg.Wait()
	}

	w, err := os.Create(out)
	if err != nil {
		t.Fatal(err)
	}
	defer w.Close()

	bw := bufio.NewWriterSize(w, 1<<20)
	defer bw.Flush()

	for i := range res {
		b, err := json.Marshal(res[i])
		if err != nil {
			t.Fatal(err)
		}

		bw.Write(b)
		bw.WriteByte('\n')
	}
}
