package lsp

// Overlay test of the C16 check (never added to /repo; injected with `go test -overlay`).
// Reads cases (JSON lines) from $VERIF_C16_IN, runs the real ComputeEdits on each pair and
// writes, per case, the edit list plus the verdict of an independent LSP-3.17 application of
// those edits (written here from the specification, not from diff.go) to $VERIF_C16_OUT.

import (
	"bufio"
	"encoding/hex"
	"encoding/json"
	"fmt"
	"os"
	"sort"
	"testing"
	"unicode/utf8"

	"github.com/open-policy-agent/opa/v1/format"

	"github.com/styrainc/regal/internal/lsp/types"
)

type verifC16In struct {
	ID     int    `json:"id"`
	Mode   string `json:"mode"` // "pair" | "fmt" (after = opa fmt of before)
	Before string `json:"before"`
	After  string `json:"after"` // hex
}

type verifC16Out struct {
	ID      int      `json:"id"`
	After   string   `json:"after,omitempty"` // hex, only for mode fmt
	Skip    string   `json:"skip,omitempty"`
	Panic   string   `json:"panic,omitempty"`
	Edits   [][5]any `json:"edits"` // sl, sc, el, ec, hex(text)
	Applied bool     `json:"applied"`
	Result  string   `json:"result,omitempty"` // hex of the wrongly applied text (only when !applied)
	Sorted  bool     `json:"sorted"`
	Disj    bool     `json:"disjoint"`
	InDoc   bool     `json:"indoc"`  // every line <= last line index, +1 when the last line is unterminated
	Strict  bool     `json:"strict"` // every line is an existing line index (no reliance on the clamp)
	Char0   bool     `json:"char0"`
	Closed  bool     `json:"closed"` // before is empty or ends with a line terminator
	ApplErr string   `json:"applerr,omitempty"`
	NLines  int      `json:"nlines"`
}

// verifLineStarts: byte offsets at which the lines of text start; LSP 3.17 EOL = \n, \r\n, \r.
func verifLineStarts(text string) []int {
	starts := []int{0}

	for i := 0; i < len(text); i++ {
		switch text[i] {
		case '\n':
			starts = append(starts, i+1)
		case '\r':
			if i+1 < len(text) && text[i+1] == '\n' {
				continue
			}

			starts = append(starts, i+1)
		}
	}

	return starts
}

// verifOffset resolves a position in text: a line past the end is the end of the document, a
// character past the end of the line is the end of the line; characters are UTF-16 code units.
func verifOffset(text string, starts []int, p types.Position) int {
	if int(p.Line) >= len(starts) || p.Line > uint(len(text)) {
		return len(text)
	}

	off := starts[p.Line]
	end := len(text)

	if int(p.Line)+1 < len(starts) {
		end = starts[p.Line+1]
		// exclude the terminator
		for end > off && (text[end-1] == '\n' || text[end-1] == '\r') {
			end--
		}
	}

	units := uint(0)
	for off < end && units < p.Character {
		r, sz := utf8.DecodeRuneInString(text[off:])
		if r >= 0x10000 {
			units += 2
		} else {
			units++
		}

		off += sz
	}

	return off
}

type verifSpan struct {
	so, eo int
	text   string
}

func verifApply(text string, edits []types.TextEdit) (string, bool, bool, string) {
	starts := verifLineStarts(text)
	spans := make([]verifSpan, 0, len(edits))
	sorted := true

	for i, e := range edits {
		s := verifSpan{verifOffset(text, starts, e.Range.Start), verifOffset(text, starts, e.Range.End), e.NewText}
		if i > 0 && spans[i-1].so > s.so {
			sorted = false
		}

		spans = append(spans, s)
	}

	sort.SliceStable(spans, func(i, j int) bool { return spans[i].so < spans[j].so })

	disjoint := true
	pos := 0
	out := make([]byte, 0, len(text))

	for _, s := range spans {
		if s.so > s.eo || s.so < pos {
			disjoint = false

			return "", sorted, disjoint, "overlapping or inverted range"
		}

		out = append(out, text[pos:s.so]...)
		out = append(out, s.text...)
		pos = s.eo
	}

	out = append(out, text[pos:]...)

	return string(out), sorted, disjoint, ""
}

func verifRunOne(c verifC16In) (o verifC16Out) {
	o.ID = c.ID

	bb, err1 := hex.DecodeString(c.Before)
	ab, err2 := hex.DecodeString(c.After)

	if err1 != nil || err2 != nil {
		o.Skip = "bad hex"

		return o
	}

	before, after := string(bb), string(ab)

	if c.Mode == "fmt" {
		f, err := format.Source("p.rego", bb)
		if err != nil {
			o.Skip = "fmt error"

			return o
		}

		after = string(f)
		o.After = hex.EncodeToString(f)
	}

	defer func() {
		if r := recover(); r != nil {
			o.Panic = fmt.Sprint(r)
		}
	}()

	edits := ComputeEdits(before, after)
	o.Edits = make([][5]any, 0, len(edits))

	starts := verifLineStarts(before)
	last := len(starts) - 1 // index of the last line (possibly the empty line after a final EOL)
	maxLine := last

	o.Closed = true

	if n := len(before); n > 0 && before[n-1] != '\n' && before[n-1] != '\r' {
		maxLine = last + 1 // unterminated last line: one past is the clamped end of document
		o.Closed = false
	}

	o.NLines = len(splitLines(before))
	o.InDoc, o.Strict, o.Char0 = true, true, true

	for _, e := range edits {
		o.Edits = append(o.Edits, [5]any{
			e.Range.Start.Line, e.Range.Start.Character, e.Range.End.Line, e.Range.End.Character,
			hex.EncodeToString([]byte(e.NewText)),
		})

		for _, p := range []types.Position{e.Range.Start, e.Range.End} {
			if p.Line > uint(maxLine) {
				o.InDoc = false
			}

			if p.Line > uint(last) {
				o.Strict = false
			}

			if p.Character != 0 {
				o.Char0 = false
			}
		}
	}

	res, sorted, disj, aerr := verifApply(before, edits)
	o.Sorted, o.Disj, o.ApplErr = sorted, disj, aerr
	o.Applied = aerr == "" && res == after

	if !o.Applied {
		o.Result = hex.EncodeToString([]byte(res))
	}

	return o
}

func TestVerifC16(t *testing.T) {
	in, out := os.Getenv("VERIF_C16_IN"), os.Getenv("VERIF_C16_OUT")
	if in == "" || out == "" {
		t.Skip("VERIF_C16_IN / VERIF_C16_OUT not set")
	}

	t.Parallel() // next to TestVerifC16Server (c16_server_test.go)

	f, err := os.Open(in)
	if err != nil {
		t.Fatal(err)
	}
	defer f.Close()

	w, err := os.Create(out)
	if err != nil {
		t.Fatal(err)
	}
	defer w.Close()

	bw := bufio.NewWriterSize(w, 1<<20)
	defer bw.Flush()

	sc := bufio.NewScanner(f)
	sc.Buffer(make([]byte, 1<<20), 1<<28)

	for sc.Scan() {
		var c verifC16In
		if err := json.Unmarshal(sc.Bytes(), &c); err != nil {
			t.Fatal(err)
		}

		b, err := json.Marshal(verifRunOne(c))
		if err != nil {
			t.Fatal(err)
		}

		bw.Write(b)
		bw.WriteByte('\n')
	}

	if err := sc.Err(); err != nil {
		t.Fatal(err)
	}
}
