// Overlay harness for C15 / C17 at the level of the language server's cache (package internal/lsp/cache): the
// state shared by the request handler, the file-lint worker and the workspace-lint worker.
//
// The job-atomic model of C15 (and its theorem set_for_rules_merge) ASSUMES that every cache operation on one map
// entry is atomic and that values handed in / out are never written through afterwards.  This harness makes both
// assumptions checked obligations of the implementation:
//
//   - sequential histories over every exported function of the package: every result and the final contents of all
//     maps are reported in a canonical form and compared with the Gallina model Model/LspCache.v by the driver;
//     VALUE SEMANTICS is checked here: every slice / map handed in as an argument or handed out as a result is kept,
//     with a snapshot of what it contained at that moment, and compared again after every later operation;
//   - concurrent histories: 2-4 goroutines issue operations on the same cache at the same time (a spinning barrier
//     releases them together), for many rounds from the same setup.  Distinct outcomes (all results + final state) are
//     reported; the driver checks that each is explained by an interleaving of the modelled atomic steps.  For
//     scenarios made of single-access operations the model-free predicate is evaluated here as well: the outcome must
//     be the outcome of SOME sequential order of the same operations on the same implementation (linearizability).
//
// The file is injected with `go test -overlay`; nothing is added to the tree.  Histories come from the driver
// (tools/props/c15.py, one PRNG); this side is a plain executor so that a replay file is self-contained.
package cache

import (
	"encoding/json"
	"fmt"
	"os"
	"path/filepath"
	"reflect"
	"runtime"
	"sort"
	"strconv"
	"strings"
	"sync"
	"sync/atomic"
	"testing"

	"github.com/open-policy-agent/opa/v1/ast"

	"github.com/styrainc/regal/internal/lsp/types"
	"github.com/styrainc/regal/pkg/report"
)

// ---------------------------------------------------------------------------------- wire format

// vcVal is the canonical form of a cached value: an atom (identity of a string / module / map / count; 0 = zero
// value), a list of diagnostics in run-length form [code, id, count], or a list of aggregates [source, key, id].
type vcVal struct {
	A *int     `json:"a,omitempty"`
	D [][3]int `json:"d,omitempty"`
	G [][3]int `json:"g,omitempty"`
	// which alternative (the slices may be empty)
	K string `json:"k"` // "a" | "d" | "g"
}

type vcAggData struct {
	Key  int      `json:"key"`
	Aggs [][3]int `json:"aggs"`
}

type vcOp struct {
	Op    string      `json:"op"`
	F     int         `json:"f,omitempty"`
	U     int         `json:"u,omitempty"`
	V2    int         `json:"v2,omitempty"` // Rename target
	Val   *vcVal      `json:"val,omitempty"`
	Data  []vcAggData `json:"data,omitempty"`
	Us    []int       `json:"us,omitempty"`
	Dirs  [][2]int    `json:"dirs,omitempty"`
	Rules []int       `json:"rules,omitempty"`
	Diags [][3]int    `json:"diags,omitempty"`
	Disk  *int        `json:"disk,omitempty"`
}

type vcRes struct {
	T       string      `json:"t"` // unit | opt | all | pair | aggmap | disk
	Ok      bool        `json:"ok,omitempty"`
	V       *vcVal      `json:"v,omitempty"`
	M       []vcEntry   `json:"m,omitempty"`
	C       *vcVal      `json:"c,omitempty"`
	Mod     *vcVal      `json:"mod,omitempty"`
	AggMap  []vcAggData `json:"aggmap,omitempty"`
	Changed bool        `json:"changed,omitempty"`
	Content int         `json:"content,omitempty"`
	Failed  bool        `json:"failed,omitempty"`
}

type vcEntry struct {
	U int   `json:"u"`
	V vcVal `json:"v"`
}

const vcFields = 11

// ---------------------------------------------------------------------------------- encoding of values

func vcURI(n int) string { return "file:///w/u" + strconv.Itoa(n) + ".rego" }

func vcURIID(s string) int {
	t := strings.TrimSuffix(strings.TrimPrefix(s, "file:///w/u"), ".rego")
	if n, err := strconv.Atoi(t); err == nil {
		return n
	}

	return -1
}

func vcTail(s, prefix string) int {
	if n, err := strconv.Atoi(strings.TrimPrefix(s, prefix)); err == nil && strings.HasPrefix(s, prefix) {
		return n
	}

	return -1
}

func vcContent(n int) string {
	if n == 0 {
		return ""
	}

	return "content-" + strconv.Itoa(n)
}

func vcContentID(s string) int {
	if s == "" {
		return 0
	}

	return vcTail(s, "content-")
}

func vcModule(n int) *ast.Module {
	if n == 0 {
		return nil
	}

	return &ast.Module{Package: &ast.Package{Path: ast.Ref{ast.DefaultRootDocument, ast.StringTerm("m" + strconv.Itoa(n))}}}
}

func vcModuleID(m *ast.Module) int {
	if m == nil {
		return 0
	}

	if m.Package == nil || len(m.Package.Path) != 2 {
		return -1
	}

	s, ok := m.Package.Path[1].Value.(ast.String)
	if !ok {
		return -1
	}

	return vcTail(string(s), "m")
}

func vcDirs(n int) map[string][]string {
	if n == 0 {
		return nil
	}

	return map[string][]string{"1": {"d" + strconv.Itoa(n)}}
}

func vcDirsID(m map[string][]string) int {
	if len(m) == 0 {
		return 0
	}

	if len(m) != 1 || len(m["1"]) != 1 {
		return -1
	}

	return vcTail(m["1"][0], "d")
}

func vcBuiltins(n int) map[uint][]types.BuiltinPosition {
	if n == 0 {
		return nil
	}

	return map[uint][]types.BuiltinPosition{uint(n): {{Line: uint(n)}}} //nolint:gosec
}

func vcBuiltinsID(m map[uint][]types.BuiltinPosition) int {
	if len(m) == 0 {
		return 0
	}

	for k, v := range m {
		if len(m) == 1 && len(v) == 1 && v[0].Line == k {
			return int(k) //nolint:gosec
		}
	}

	return -1
}

func vcKeywords(n int) map[uint][]types.KeywordLocation {
	if n == 0 {
		return nil
	}

	return map[uint][]types.KeywordLocation{uint(n): {{Name: "k", Line: uint(n)}}} //nolint:gosec
}

func vcKeywordsID(m map[uint][]types.KeywordLocation) int {
	if len(m) == 0 {
		return 0
	}

	for k, v := range m {
		if len(m) == 1 && len(v) == 1 && v[0].Line == k && v[0].Name == "k" {
			return int(k) //nolint:gosec
		}
	}

	return -1
}

func vcRefs(n int) map[string]types.Ref {
	if n == 0 {
		return nil
	}

	l := "r" + strconv.Itoa(n)

	return map[string]types.Ref{l: {Label: l}}
}

func vcRefsID(m map[string]types.Ref) int {
	if len(m) == 0 {
		return 0
	}

	for k, v := range m {
		if len(m) == 1 && v.Label == k {
			return vcTail(k, "r")
		}
	}

	return -1
}

func vcDiags(rle [][3]int) []types.Diagnostic {
	out := []types.Diagnostic{}

	for _, e := range rle {
		for range e[2] {
			out = append(out, types.Diagnostic{Code: "r" + strconv.Itoa(e[0]), Message: "d" + strconv.Itoa(e[1])})
		}
	}

	return out
}

func vcDiagsRLE(ds []types.Diagnostic) [][3]int {
	out := [][3]int{}

	for _, d := range ds {
		c, i := vcTail(d.Code, "r"), vcTail(d.Message, "d")
		// anything but Code and Message must be as it was made: a torn or mixed element is reported as (-1, -1)
		if d.Source != "" || d.Severity != 0 || d.CodeDescription != nil || d.Range != (types.Range{}) {
			c, i = -1, -1
		}

		if n := len(out); n > 0 && out[n-1][0] == c && out[n-1][1] == i {
			out[n-1][2]++
		} else {
			out = append(out, [3]int{c, i, 1})
		}
	}

	return out
}

func vcAgg(e [3]int) report.Aggregate {
	return report.Aggregate{
		"aggregate_source": map[string]any{"file": vcURI(e[0])},
		"rule":             map[string]any{"category": "c", "title": "k" + strconv.Itoa(e[1])},
		"aggregate_data":   map[string]any{"id": e[2]},
	}
}

func vcAggID(a report.Aggregate) [3]int {
	id := -1

	if d, ok := a["aggregate_data"].(map[string]any); ok {
		if n, ok := d["id"].(int); ok {
			id = n
		}
	}

	return [3]int{vcURIID(a.SourceFile()), vcTail(a.IndexKey(), "c/k"), id}
}

func vcAggsCanon(as []report.Aggregate) [][3]int {
	out := make([][3]int, 0, len(as))
	for _, a := range as {
		out = append(out, vcAggID(a))
	}

	// the order inside one file's entries depends on Go's map iteration order
	sort.Slice(out, func(i, j int) bool { return out[i][2] < out[j][2] })

	return out
}

func vcAggMap(data []vcAggData) map[string][]report.Aggregate {
	out := map[string][]report.Aggregate{}

	for _, d := range data {
		l := []report.Aggregate{}
		for _, e := range d.Aggs {
			l = append(l, vcAgg(e))
		}

		out["c/k"+strconv.Itoa(d.Key)] = l
	}

	return out
}

func vcAtom(n int) vcVal { return vcVal{K: "a", A: &n} }

// vcCanon: canonical form of a value of any of the cached types.
func vcCanon(x any) vcVal {
	switch v := x.(type) {
	case string:
		return vcAtom(vcContentID(v))
	case *ast.Module:
		return vcAtom(vcModuleID(v))
	case map[string][]string:
		return vcAtom(vcDirsID(v))
	case map[uint][]types.BuiltinPosition:
		return vcAtom(vcBuiltinsID(v))
	case map[uint][]types.KeywordLocation:
		return vcAtom(vcKeywordsID(v))
	case map[string]types.Ref:
		return vcAtom(vcRefsID(v))
	case int:
		return vcAtom(v)
	case []types.Diagnostic:
		return vcVal{K: "d", D: vcDiagsRLE(v)}
	case []report.Aggregate:
		return vcVal{K: "g", G: vcAggsCanon(v)}
	}

	return vcAtom(-2)
}

func vcEntries[V any](m map[string]V) []vcEntry {
	out := make([]vcEntry, 0, len(m))
	for k, v := range m {
		out = append(out, vcEntry{U: vcURIID(k), V: vcCanon(v)})
	}

	sort.Slice(out, func(i, j int) bool { return out[i].U < out[j].U })

	return out
}

func vcAggMapCanon(m map[string][]report.Aggregate) []vcAggData {
	out := make([]vcAggData, 0, len(m))
	for k, as := range m {
		out = append(out, vcAggData{Key: vcTail(k, "c/k"), Aggs: vcAggsCanon(as)})
	}

	sort.Slice(out, func(i, j int) bool { return out[i].Key < out[j].Key })

	return out
}

// vcDump: the contents of every map of the cache, in the order of the struct.
func vcDump(c *Cache) [][]vcEntry {
	return [][]vcEntry{
		vcEntries(c.fileContents.Clone()), vcEntries(c.ignoredFileContents.Clone()), vcEntries(c.modules.Clone()),
		vcEntries(c.aggregateData.Clone()), vcEntries(c.ignoreDirectives.Clone()), vcEntries(c.diagnosticsFile.Clone()),
		vcEntries(c.diagnosticsParseErrors.Clone()), vcEntries(c.builtinPositionsFile.Clone()),
		vcEntries(c.keywordLocationsFile.Clone()), vcEntries(c.successfulParseLineCounts.Clone()), vcEntries(c.fileRefs.Clone()),
	}
}

// ---------------------------------------------------------------------------------- held values (value semantics)

// vcHeld is a slice / map that crossed the boundary of the cache, with what it contained at that moment.
type vcHeld struct {
	What string
	Live any
	Snap string
}

type vcHolder struct {
	on   bool
	held []vcHeld
}

func vcSnap(x any) string {
	var v any

	switch m := x.(type) {
	case map[string][]report.Aggregate:
		v = vcAggMapCanon(m)
	case map[string]map[string][]string:
		v = vcEntries(m)
	case map[string]string:
		v = vcEntries(m)
	case map[string]*ast.Module:
		v = vcEntries(m)
	case map[string]map[uint][]types.BuiltinPosition:
		v = vcEntries(m)
	case map[string]map[string]types.Ref:
		v = vcEntries(m)
	default:
		v = vcCanon(x)
	}

	b, _ := json.Marshal(v)

	return string(b)
}

func (h *vcHolder) keep(what string, x any) {
	if !h.on {
		return
	}

	switch x.(type) {
	case string, int:
		return // immutable in Go
	}

	h.held = append(h.held, vcHeld{What: what, Live: x, Snap: vcSnap(x)})
}

// changed: the held values that no longer contain what they contained when they crossed the boundary
func (h *vcHolder) changed() []string {
	var out []string

	for _, e := range h.held {
		if now := vcSnap(e.Live); now != e.Snap {
			out = append(out, fmt.Sprintf("%s: was %s, is %s", e.What, e.Snap, now))
		}
	}

	return out
}

// ---------------------------------------------------------------------------------- executing one operation

func vcOptRes(v any, ok bool) vcRes {
	r := vcRes{T: "opt", Ok: ok}

	if ok {
		c := vcCanon(v)
		r.V = &c
	}

	return r
}

func vcAllRes[V any](m map[string]V) vcRes { return vcRes{T: "all", M: vcEntries(m)} }

// vcExec performs one operation through the exported API and returns the canonical form of its result.
// dir: where files for UpdateCacheForURIFromDisk are written.
func vcExec(c *Cache, o vcOp, h *vcHolder, i int, dir string) (vcRes, error) {
	u := vcURI(o.U)
	tag := func(s string) string { return fmt.Sprintf("op %d %s(%d) %s", i, o.Op, o.U, s) }
	unit := vcRes{T: "unit"}

	switch o.Op {
	case "GetAll":
		switch o.F {
		case 0:
			m := c.GetAllFiles()
			h.keep(tag("result"), m)

			return vcAllRes(m), nil
		case 1:
			m := c.GetAllIgnoredFiles()
			h.keep(tag("result"), m)

			return vcAllRes(m), nil
		case 2:
			m := c.GetAllModules()
			h.keep(tag("result"), m)

			return vcAllRes(m), nil
		case 4:
			m := c.GetIgnoreDirectives()
			h.keep(tag("result"), m)

			return vcAllRes(m), nil
		case 7:
			m := c.GetAllBuiltInPositions()
			h.keep(tag("result"), m)

			return vcAllRes(m), nil
		case 10:
			m := c.GetAllFileRefs()
			h.keep(tag("result"), m)

			return vcAllRes(m), nil
		}
	case "Get":
		switch o.F {
		case 0:
			v, ok := c.GetFileContents(u)

			return vcOptRes(v, ok), nil
		case 1:
			v, ok := c.GetIgnoredFileContents(u)

			return vcOptRes(v, ok), nil
		case 2:
			v, ok := c.GetModule(u)

			return vcOptRes(v, ok), nil
		case 5:
			v, ok := c.GetFileDiagnostics(u)
			h.keep(tag("result"), v)

			return vcOptRes(v, ok), nil
		case 6:
			v, ok := c.GetParseErrors(u)
			h.keep(tag("result"), v)

			return vcOptRes(v, ok), nil
		case 7:
			v, ok := c.GetBuiltinPositions(u)
			h.keep(tag("result"), v)

			return vcOptRes(v, ok), nil
		case 8:
			v, ok := c.GetKeywordLocations(u)
			h.keep(tag("result"), v)

			return vcOptRes(v, ok), nil
		case 9:
			v, ok := c.GetSuccessfulParseLineCount(u)

			return vcOptRes(v, ok), nil
		}
	case "Set":
		if o.Val == nil {
			return unit, fmt.Errorf("Set without a value")
		}

		a := 0
		if o.Val.A != nil {
			a = *o.Val.A
		}

		switch o.F {
		case 0:
			c.SetFileContents(u, vcContent(a))

			return unit, nil
		case 1:
			c.SetIgnoredFileContents(u, vcContent(a))

			return unit, nil
		case 2:
			c.SetModule(u, vcModule(a))

			return unit, nil
		case 5:
			v := vcDiags(o.Val.D)
			h.keep(tag("argument"), v)
			c.SetFileDiagnostics(u, v)

			return unit, nil
		case 6:
			v := vcDiags(o.Val.D)
			h.keep(tag("argument"), v)
			c.SetParseErrors(u, v)

			return unit, nil
		case 7:
			v := vcBuiltins(a)
			h.keep(tag("argument"), v)
			c.SetBuiltinPositions(u, v)

			return unit, nil
		case 8:
			v := vcKeywords(a)
			h.keep(tag("argument"), v)
			c.SetKeywordLocations(u, v)

			return unit, nil
		case 9:
			c.SetSuccessfulParseLineCount(u, a)

			return unit, nil
		case 10:
			v := vcRefs(a)
			h.keep(tag("argument"), v)
			c.SetFileRefs(u, v)

			return unit, nil
		}
	case "GetFileRefs":
		v := c.GetFileRefs(u)
		h.keep(tag("result"), v)

		return vcOptRes(v, true), nil
	case "ClearIgnored":
		c.ClearIgnoredFileContents(u)

		return unit, nil
	case "GetContentAndModule":
		s, m, ok := c.GetContentAndModule(u)
		r := vcRes{T: "pair", Ok: ok}

		if ok {
			cc, mm := vcCanon(s), vcCanon(m)
			r.C, r.Mod = &cc, &mm
		}

		return r, nil
	case "Rename":
		c.Rename(u, vcURI(o.V2))

		return unit, nil
	case "SetFileAggregates":
		d := vcAggMap(o.Data)
		h.keep(tag("argument"), d)
		c.SetFileAggregates(u, d)

		return unit, nil
	case "SetAggregates":
		d := vcAggMap(o.Data)
		h.keep(tag("argument"), d)
		c.SetAggregates(d)

		return unit, nil
	case "GetFileAggregates":
		us := make([]string, 0, len(o.Us))
		for _, n := range o.Us {
			us = append(us, vcURI(n))
		}

		m := c.GetFileAggregates(us...)
		h.keep(tag("result"), m)

		return vcRes{T: "aggmap", AggMap: vcAggMapCanon(m)}, nil
	case "SetFileIgnoreDirectives", "SetIgnoreDirectives":
		d := map[string]map[string][]string{}
		for _, e := range o.Dirs {
			d[vcURI(e[0])] = vcDirs(e[1])
		}

		h.keep(tag("argument"), d)

		if o.Op == "SetFileIgnoreDirectives" {
			c.SetFileIgnoreDirectives(u, d)
		} else {
			c.SetIgnoreDirectives(d)
		}

		return unit, nil
	case "SetDiagsForRules":
		rules := make([]string, 0, len(o.Rules))
		for _, r := range o.Rules {
			rules = append(rules, "r"+strconv.Itoa(r))
		}

		v := vcDiags(o.Diags)
		h.keep(tag("argument"), v)
		c.SetFileDiagnosticsForRules(u, rules, v)

		return unit, nil
	case "ClearDiags":
		c.ClearFileDiagnostics()

		return unit, nil
	case "Delete":
		c.Delete(u)

		return unit, nil
	case "UpdateFromDisk":
		p := filepath.Join(dir, fmt.Sprintf("u%d.rego", o.U))
		_ = os.Remove(p)

		if o.Disk != nil {
			if err := os.WriteFile(p, []byte(vcContent(*o.Disk)), 0o600); err != nil {
				return unit, err
			}
		}

		changed, content, err := UpdateCacheForURIFromDisk(c, u, p)

		return vcRes{T: "disk", Changed: changed, Content: vcContentID(content), Failed: err != nil}, nil
	}

	return unit, fmt.Errorf("the cache has no operation %s on map %d", o.Op, o.F)
}

// ---------------------------------------------------------------------------------- sequential histories

type vcSeqJob struct {
	ID  int    `json:"id"`
	Ops []vcOp `json:"ops"`
}

type vcSeqOut struct {
	ID      int         `json:"id"`
	Results []vcRes     `json:"results"`
	Final   [][]vcEntry `json:"final"`
	// value semantics: operation index after which a value that crossed the boundary earlier had changed
	MutatedAt int      `json:"mutated_at"`
	Mutated   []string `json:"mutated,omitempty"`
	Error     string   `json:"error,omitempty"`
}

func vcRunSeq(job vcSeqJob, dir string) vcSeqOut {
	out := vcSeqOut{ID: job.ID, MutatedAt: -1}
	c := NewCache()
	h := &vcHolder{on: true}

	for i, o := range job.Ops {
		r, err := vcExec(c, o, h, i, dir)
		if err != nil {
			out.Error = err.Error()

			return out
		}

		out.Results = append(out.Results, r)

		if out.MutatedAt < 0 {
			if ch := h.changed(); len(ch) > 0 {
				out.MutatedAt, out.Mutated = i, ch
			}
		}
	}

	out.Final = vcDump(c)

	return out
}

// ---------------------------------------------------------------------------------- concurrent histories

type vcConcJob struct {
	ID      int      `json:"id"`
	Setup   []vcOp   `json:"setup"`
	Threads [][]vcOp `json:"threads"`
	Rounds  int      `json:"rounds"`
	// every operation is a single access of one concurrent map: the outcome must equal a sequential order of the
	// operations on the implementation itself
	Atomic bool `json:"atomic"`
}

type vcOutcome struct {
	Results [][]vcRes   `json:"results"`
	Final   [][]vcEntry `json:"final"`
	Count   int         `json:"count"`
	Round   int         `json:"first_round"`
	// model-free verdict (Atomic scenarios): equals some sequential order of the whole operations
	Sequential *bool `json:"sequential,omitempty"`
}

type vcConcOut struct {
	ID       int         `json:"id"`
	Outcomes []vcOutcome `json:"outcomes"`
	Orders   int         `json:"orders"`
	Error    string      `json:"error,omitempty"`
}

func vcOutcomeKey(res [][]vcRes, final [][]vcEntry) string {
	b, _ := json.Marshal([]any{res, final})

	return string(b)
}

// vcOrders enumerates the interleavings of whole operations (program order kept) as sequences of thread indices.
func vcOrders(lens []int, f func(order []int) bool) bool {
	total := 0
	for _, n := range lens {
		total += n
	}

	pos := make([]int, len(lens))
	order := make([]int, 0, total)

	var rec func() bool

	rec = func() bool {
		if len(order) == total {
			return f(order)
		}

		for t := range lens {
			if pos[t] < lens[t] {
				pos[t]++
				order = append(order, t)

				if rec() {
					return true
				}

				order = order[:len(order)-1]
				pos[t]--
			}
		}

		return false
	}

	return rec()
}

func vcRunConc(job vcConcJob, dir string) vcConcOut {
	out := vcConcOut{ID: job.ID}
	seen := map[string]int{}
	nt := len(job.Threads)
	off := &vcHolder{}

	for round := range job.Rounds {
		c := NewCache()

		for i, o := range job.Setup {
			if _, err := vcExec(c, o, off, i, dir); err != nil {
				out.Error = "setup: " + err.Error()

				return out
			}
		}

		res := make([][]vcRes, nt)
		errs := make([]error, nt)

		var (
			ready atomic.Int32
			wg    sync.WaitGroup
		)

		for t := range nt {
			wg.Add(1)

			go func() {
				defer wg.Done()

				tdir := filepath.Join(dir, "t"+strconv.Itoa(t))

				ready.Add(1)

				for int(ready.Load()) < nt {
					runtime.Gosched()
				}

				for i, o := range job.Threads[t] {
					// the result is canonicalised at once, i.e. slices handed out are READ here, outside of any lock,
					// while the other goroutines go on (as sendFileDiagnostics encodes what GetFileDiagnostics returned)
					r, err := vcExec(c, o, off, i, tdir)
					if err != nil {
						errs[t] = err

						return
					}

					res[t] = append(res[t], r)
				}
			}()
		}

		wg.Wait()

		for _, err := range errs {
			if err != nil {
				out.Error = err.Error()

				return out
			}
		}

		final := vcDump(c)
		key := vcOutcomeKey(res, final)

		if i, ok := seen[key]; ok {
			out.Outcomes[i].Count++

			continue
		}

		seen[key] = len(out.Outcomes)
		out.Outcomes = append(out.Outcomes, vcOutcome{Results: res, Final: final, Count: 1, Round: round})
	}

	if !job.Atomic {
		return out
	}

	// model-free: which outcomes can a sequential execution of the same operations produce?
	lens := make([]int, nt)
	for t := range nt {
		lens[t] = len(job.Threads[t])
	}

	seq := map[string]bool{}

	vcOrders(lens, func(order []int) bool {
		out.Orders++

		c := NewCache()
		for i, o := range job.Setup {
			_, _ = vcExec(c, o, off, i, dir)
		}

		res := make([][]vcRes, nt)
		pos := make([]int, nt)

		for _, t := range order {
			r, _ := vcExec(c, job.Threads[t][pos[t]], off, pos[t], filepath.Join(dir, "t"+strconv.Itoa(t)))
			pos[t]++
			res[t] = append(res[t], r)
		}

		seq[vcOutcomeKey(res, vcDump(c))] = true

		return false
	})

	for i := range out.Outcomes {
		ok := seq[vcOutcomeKey(out.Outcomes[i].Results, out.Outcomes[i].Final)]
		out.Outcomes[i].Sequential = &ok
	}

	return out
}

// ---------------------------------------------------------------------------------- entry point

type vcIn struct {
	Seq  []vcSeqJob  `json:"seq"`
	Conc []vcConcJob `json:"conc"`
}

type vcOut struct {
	// exported methods of *Cache and the exported functions this harness knows of (the driver compares with the
	// operations it generates: a function that is never driven is reported)
	Methods []string    `json:"methods"`
	Seq     []vcSeqOut  `json:"seq"`
	Conc    []vcConcOut `json:"conc"`
	Race    bool        `json:"race"`
}

// TestVerifC15Cache executes the histories of $VERIF_IN and writes the observations to $VERIF_OUT.
func TestVerifC15Cache(t *testing.T) {
	in, outp := os.Getenv("VERIF_IN"), os.Getenv("VERIF_OUT")
	if in == "" || outp == "" {
		t.Skip("VERIF_IN / VERIF_OUT not set")
	}

	// the interleavings need several threads, also on a small machine
	defer runtime.GOMAXPROCS(runtime.GOMAXPROCS(max(4, runtime.NumCPU())))

	var q vcIn

	bs, err := os.ReadFile(in)
	if err != nil {
		t.Fatal(err)
	}

	if err := json.Unmarshal(bs, &q); err != nil {
		t.Fatal(err)
	}

	dir, err := os.MkdirTemp(os.Getenv("VERIF_WORK"), "cache")
	if err != nil {
		t.Fatal(err)
	}

	defer os.RemoveAll(dir)

	for i := range 4 {
		_ = os.MkdirAll(filepath.Join(dir, "t"+strconv.Itoa(i)), 0o755)
	}

	res := vcOut{Race: os.Getenv("VERIF_RACE") != ""}

	ty := reflect.TypeOf(&Cache{})
	for i := range ty.NumMethod() {
		res.Methods = append(res.Methods, ty.Method(i).Name)
	}

	for _, j := range q.Seq {
		res.Seq = append(res.Seq, vcRunSeq(j, dir))
	}

	for _, j := range q.Conc {
		res.Conc = append(res.Conc, vcRunConc(j, dir))
	}

	ob, err := json.Marshal(res)
	if err != nil {
		t.Fatal(err)
	}

	if err := os.WriteFile(outp, ob, 0o644); err != nil {
		t.Fatal(err)
	}
}
