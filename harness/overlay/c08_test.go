package parse

// Overlay test for C08 (never added to /repo): runs parse.PrepareAST — the code that builds
// input.regal.file.lines for `regal parse`, the language server and regal.parse_module — on the texts
// listed in $VERIF_C08_IN and writes the line tables to $VERIF_C08_OUT (null for texts that do not parse).
// tools/props/c08.py compares them with Model/Layout.v's regal_lines.

import (
	"encoding/json"
	"os"
	"testing"
)

func TestVerifC08(t *testing.T) {
	inPath, outPath := os.Getenv("VERIF_C08_IN"), os.Getenv("VERIF_C08_OUT")
	if inPath == "" {
		t.Skip("no input")
	}
	var texts []string
	bs, err := os.ReadFile(inPath)
	if err != nil {
		t.Fatal(err)
	}
	if err := json.Unmarshal(bs, &texts); err != nil {
		t.Fatal(err)
	}
	out := make([]any, len(texts))
	for i, text := range texts {
		mod, err := ModuleUnknownVersionWithOpts("policy.rego", text, ParserOptions())
		if err != nil {
			continue
		}
		prepared, err := PrepareAST("policy.rego", text, mod)
		if err != nil {
			continue
		}
		regal, _ := prepared["regal"].(map[string]any)
		file, _ := regal["file"].(map[string]any)
		out[i] = file["lines"]
	}
	res, _ := json.Marshal(out)
	if err := os.WriteFile(outPath, res, 0o644); err != nil {
		t.Fatal(err)
	}
}
