package lsp

// Overlay test for C07 (never added to /repo): drives getRangeForViolation / convertReportToDiagnostics with
// the report locations listed in $VERIF_C07_IN and writes the LSP ranges to $VERIF_C07_OUT.

import (
	"encoding/json"
	"os"
	"testing"

	"github.com/styrainc/regal/pkg/report"
)

func TestVerifC07(t *testing.T) {
	inPath, outPath := os.Getenv("VERIF_C07_IN"), os.Getenv("VERIF_C07_OUT")
	if inPath == "" {
		t.Skip("no input")
	}
	type cs struct {
		Row    int     `json:"row"`
		Col    int     `json:"col"`
		HasEnd bool    `json:"has_end"`
		EndRow int     `json:"end_row"`
		EndCol int     `json:"end_col"`
		Text   *string `json:"text"`
		File   string  `json:"file"`
		Got    [4]uint `json:"got"`
		Key    string  `json:"key"` // file the diagnostic was filed under
	}
	var cases []cs
	bs, err := os.ReadFile(inPath)
	if err != nil {
		t.Fatal(err)
	}
	if err := json.Unmarshal(bs, &cases); err != nil {
		t.Fatal(err)
	}
	for i := range cases {
		c := &cases[i]
		v := report.Violation{Title: "t", Category: "c", Level: "error",
			Location: report.Location{Row: c.Row, Column: c.Col, Text: c.Text, File: c.File}}
		if c.HasEnd {
			v.Location.End = &report.Position{Row: c.EndRow, Column: c.EndCol}
		}
		r := getRangeForViolation(v)
		c.Got = [4]uint{r.Start.Line, r.Start.Character, r.End.Line, r.End.Character}
		d := convertReportToDiagnostics(&report.Report{Violations: []report.Violation{v}}, "file:///ws")
		for k, ds := range d {
			c.Key = k
			if len(ds) != 1 || ds[0].Range != r {
				t.Fatalf("convertReportToDiagnostics does not use getRangeForViolation for %+v", v)
			}
		}
	}
	out, _ := json.Marshal(cases)
	if err := os.WriteFile(outPath, out, 0o644); err != nil {
		t.Fatal(err)
	}
}
