package lsp

// Overlay tests for C07 (never added to /repo):
//   TestVerifC07      drives getRangeForViolation / convertReportToDiagnostics with the report locations listed in
//                     $VERIF_C07_IN and writes the LSP ranges to $VERIF_C07_OUT;
//   TestVerifC07Shift the k-shift relation for the server's diagnostics, end to end (see below).

import (
	"context"
	"encoding/json"
	"fmt"
	"os"
	"regexp"
	"slices"
	"sort"
	"strconv"
	"strings"
	"sync"
	"testing"

	"gopkg.in/yaml.v3"

	"github.com/open-policy-agent/opa/v1/ast"
	"github.com/open-policy-agent/opa/v1/storage"

	"github.com/styrainc/regal/internal/lsp/cache"
	"github.com/styrainc/regal/pkg/config"
	"github.com/styrainc/regal/pkg/linter"
	"github.com/styrainc/regal/pkg/report"
	"github.com/styrainc/regal/pkg/rules"
)

func TestVerifC07(t *testing.T) {
	inPath, outPath := os.Getenv("VERIF_C07_IN"), os.Getenv("VERIF_C07_OUT")
	if inPath == "" {
		t.Skip("no input")
	}
	type cs struct {
		Row    int     `json:"row"`
		Col    int     `json:"col"`
		HasEnd bool    `json:"has_end"`
		EndRow int     `json:"end_row"`
		EndCol int     `json:"end_col"`
		Text   *string `json:"text"`
		File   string  `json:"file"`
		Got    [4]uint `json:"got"`
		Key    string  `json:"key"` // file the diagnostic was filed under
	}
	var cases []cs
	bs, err := os.ReadFile(inPath)
	if err != nil {
		t.Fatal(err)
	}
	if err := json.Unmarshal(bs, &cases); err != nil {
		t.Fatal(err)
	}
	for i := range cases {
		c := &cases[i]
		v := report.Violation{Title: "t", Category: "c", Level: "error",
			Location: report.Location{Row: c.Row, Column: c.Col, Text: c.Text, File: c.File}}
		if c.HasEnd {
			v.Location.End = &report.Position{Row: c.EndRow, Column: c.EndCol}
		}
		r := getRangeForViolation(v)
		c.Got = [4]uint{r.Start.Line, r.Start.Character, r.End.Line, r.End.Character}
		d := convertReportToDiagnostics(&report.Report{Violations: []report.Violation{v}}, "file:///ws")
		for k, ds := range d {
			c.Key = k
			if len(ds) != 1 || ds[0].Range != r {
				t.Fatalf("convertReportToDiagnostics does not use getRangeForViolation for %+v", v)
			}
		}
	}
	out, _ := json.Marshal(cases)
	if err := os.WriteFile(outPath, out, 0o644); err != nil {
		t.Fatal(err)
	}
}

// ---------------------------------------------------------------------------------------------------------
// End-to-end k-shift relation for the diagnostics of the language server (C07's observe_at includes them):
// a workspace is loaded and linted as a whole (what the server does at start-up), then ONE file is replaced
// by its k-shifted version through the functions the server runs for every edit — updateParse,
// updateFileDiagnostics (non-aggregate rules, exports the file's aggregates and ignore directives into the
// cache), updateAllDiagnostics(aggregatesReportOnly) — and the file's cached diagnostics must be the ones
// from before the edit with every line moved by k: nothing added, nothing lost, nothing else changed; the
// diagnostics of the other files must not change at all. Workspaces come from $VERIF_C07_SHIFT_IN.

type shiftWS struct {
	Name     string            `json:"name"`
	Files    map[string]string `json:"files"`     // path relative to the workspace root -> content
	Config   string            `json:"config"`    // YAML user config, "" = none
	Ks       []int             `json:"ks"`        // k blank lines inserted at the TOP of the file
	Edit     []string          `json:"edit"`      // files to edit, in this order (default: all, sorted)
	Cuts     map[string][]int  `json:"cuts"`      // per file: 0-based line indices that start a top-level chunk (after a blank line)
	MidKs    []int             `json:"mid_ks"`    // k blank lines inserted before each of the file's cuts
	MidCross bool              `json:"mid_cross"` // every k at every cut (else the k values rotate over the cuts)
	TailKs   []int             `json:"tail_ks"`   // k blank lines appended at the end of the file
	// Program: the edits of the session, in order (a replay of an issue that needs the history of the session carries the
	// edits up to and including the failing one); empty: generated from the fields above, file by file
	Program []shiftStep `json:"program"`
}

type shiftStep struct {
	File string        `json:"file"`
	Edit shiftEditSpec `json:"edit"`
}

// shiftEditSpec: one layout-only edit of a file: k blank lines at the top, before line Row ("mid"), or at the end ("tail")
type shiftEditSpec struct {
	Kind string `json:"kind"`
	Row  int    `json:"row"`
	K    int    `json:"k"`
}

func (e shiftEditSpec) String() string {
	switch e.Kind {
	case "mid":
		return fmt.Sprintf("%d blank lines before line %d", e.K, e.Row+1)
	case "tail":
		return fmt.Sprintf("%d blank lines at the end", e.K)
	}
	return fmt.Sprintf("%d blank lines at the top", e.K)
}

func (e shiftEditSpec) apply(text string) string {
	switch e.Kind {
	case "mid":
		lines := strings.Split(text, "\n")
		if e.Row < 0 || e.Row > len(lines) {
			return text
		}
		out := append([]string{}, lines[:e.Row]...)
		for i := 0; i < e.K; i++ {
			out = append(out, "")
		}
		return strings.Join(append(out, lines[e.Row:]...), "\n")
	case "tail":
		return text + strings.Repeat("\n", e.K)
	}
	return strings.Repeat("\n", e.K) + text
}

// first 0-based line that moves
func (e shiftEditSpec) from() (uint, bool) {
	switch e.Kind {
	case "mid":
		return uint(e.Row), true
	case "tail":
		return 0, false
	}
	return 0, true
}

type shiftDiag struct {
	Code     string  `json:"code"`
	Source   string  `json:"source"`
	Severity uint    `json:"severity"`
	Message  string  `json:"message"`
	Range    [4]uint `json:"range"`
}

type shiftIssue struct {
	Kind     string            `json:"kind"` // missing-after-edit | extra-after-edit | other-file-changed | outside-file | error
	File     string            `json:"file"`
	K        int               `json:"k"`
	Edit     shiftEditSpec     `json:"edit"`
	EditText string            `json:"edit_text"`
	Diag     *shiftDiag        `json:"diag,omitempty"`
	Other    string            `json:"other,omitempty"`
	Err      string            `json:"err,omitempty"`
	Files    map[string]string `json:"files"` // the (minimised) workspace that shows it
	Config   string            `json:"config"`
	Before   []shiftDiag       `json:"before"`
	After    []shiftDiag       `json:"after"`
	Minimal  bool              `json:"minimised"`
	Attempts int               `json:"attempts"`
	// History: the issue does not show on a fresh cache with this one edit alone: the edits of the session up to and
	// including the failing one
	History []shiftStep `json:"history,omitempty"`
}

type shiftResult struct {
	Name        string                 `json:"name"`
	Skipped     string                 `json:"skipped,omitempty"`
	Baseline    map[string][]shiftDiag `json:"baseline"`
	Edits       int                    `json:"edits"`
	EditsByKind map[string]int         `json:"edits_by_kind"`
	CommentFree []string               `json:"comment_free_files"` // files without any comment (their re-parsed module differs from the cached one in locations only)
	Compared    int                    `json:"compared"`           // (diagnostic, edit) pairs
	ByCode      map[string]int         `json:"by_code"`
	Aggregate   []string               `json:"aggregate_rules"`
	Issues      []shiftIssue           `json:"issues"`
	// round 3 (input modes): the diagnostics the server holds after loading the workspace against one linter.Lint call over
	// the same texts handed over as a map of file contents (rules.InputFromMap), converted with convertReportToDiagnostics
	ModeIssues   []shiftIssue `json:"mode_issues,omitempty"`
	ModeCompared int          `json:"mode_compared"`
}

const shiftRoot = "file:///ws"

// exempt for the reasons given in notes/C07.md: the verdicts are about the formatting / the length of the file
var shiftExempt = map[string]bool{"opa-fmt": true, "file-length": true}

var shiftDescQuotesRows = map[string]bool{"duplicate-rule": true}

var shiftDecRE = regexp.MustCompile(`[0-9]+`)

func shiftSnapshot(c *cache.Cache, uri string) []shiftDiag {
	ds, _ := c.GetFileDiagnostics(uri)
	res := []shiftDiag{}
	for _, d := range ds {
		if shiftExempt[d.Code] {
			continue
		}
		res = append(res, shiftDiag{Code: d.Code, Source: d.Source, Severity: d.Severity, Message: d.Message,
			Range: [4]uint{d.Range.Start.Line, d.Range.Start.Character, d.Range.End.Line, d.Range.End.Character}})
	}
	sort.Slice(res, func(i, j int) bool { return fmt.Sprint(res[i]) < fmt.Sprint(res[j]) })
	return res
}

// shiftMoved: where the diagnostics have to be after the edit: every line at or below the insertion point moves by k
// (start and end separately: a range that begins above and ends below grows), those above stay
func shiftMoved(ds []shiftDiag, e shiftEditSpec) []shiftDiag {
	from, moves := e.from()
	k := uint(e.K)
	res := make([]shiftDiag, len(ds))
	for i, d := range ds {
		if moves {
			if d.Range[0] >= from {
				d.Range[0] += k
			}
			if d.Range[2] >= from {
				d.Range[2] += k
			}
			if shiftDescQuotesRows[d.Code] {
				d.Message = shiftDecRE.ReplaceAllStringFunc(d.Message, func(s string) string {
					n, err := strconv.Atoi(s)
					if err != nil || n < 1 || uint(n-1) < from { // the message quotes 1-based rows
						return s
					}
					return strconv.Itoa(n + e.K)
				})
			}
		}
		res[i] = d
	}
	sort.Slice(res, func(i, j int) bool { return fmt.Sprint(res[i]) < fmt.Sprint(res[j]) })
	return res
}

// multiset difference a \ b
func shiftMinus(a, b []shiftDiag) []shiftDiag {
	cnt := map[shiftDiag]int{}
	for _, d := range b {
		cnt[d]++
	}
	var res []shiftDiag
	for _, d := range a {
		if cnt[d] > 0 {
			cnt[d]--
		} else {
			res = append(res, d)
		}
	}
	return res
}

type shiftSession struct {
	c      *cache.Cache
	store  storage.Store
	cfg    *config.Config
	all    []string
	agg    []string
	nonAgg []string
}

// shiftLoad: what the server does when a workspace is opened — every file parsed, then one lint of everything
// that also fills the aggregate / ignore-directive caches
func shiftLoad(ctx context.Context, files map[string]string, cfgYAML string) (*shiftSession, string, error) {
	s := &shiftSession{c: cache.NewCache(), store: NewRegalStore()}
	if cfgYAML != "" {
		var cfg config.Config
		if err := yaml.Unmarshal([]byte(cfgYAML), &cfg); err != nil {
			return nil, "", fmt.Errorf("config: %w", err)
		}
		s.cfg = &cfg
	}
	l := linter.NewLinter()
	if s.cfg != nil {
		l = l.WithUserConfig(*s.cfg)
	}
	var err error
	if s.all, err = l.DetermineEnabledRules(ctx); err != nil {
		return nil, "", err
	}
	if s.agg, err = l.DetermineEnabledAggregateRules(ctx); err != nil {
		return nil, "", err
	}
	s.nonAgg = slices.DeleteFunc(slices.Clone(s.all), func(r string) bool { return slices.Contains(s.agg, r) })
	var names []string
	for n := range files {
		names = append(names, n)
	}
	sort.Strings(names)
	for _, n := range names {
		uri := shiftRoot + "/" + n
		s.c.SetFileContents(uri, files[n])
		ok, err := updateParse(ctx, s.c, s.store, uri, nil, ast.RegoV1)
		if err != nil {
			return nil, "", err
		}
		if !ok {
			return nil, n + " does not parse", nil
		}
	}
	if err := updateAllDiagnostics(ctx, s.c, s.cfg, shiftRoot, true, false, s.all); err != nil {
		return nil, "", err
	}
	return s, "", nil
}

// shiftAPIMode: the same workspace through the public API in one call (texts -> rules.InputFromMap -> Lint with the server's
// path prefix and configuration): per file the same diagnostics as the server holds after loading the workspace. With
// the k-shift relation of both sides this ties the server's diagnostics for every k to the reports of the other input modes.
func shiftAPIMode(ctx context.Context, s *shiftSession, files map[string]string, cfg string, base map[string][]shiftDiag) (res []shiftIssue, n int) {
	texts := map[string]string{}
	for name, t := range files {
		texts[shiftRoot+"/"+name] = t
	}
	in, err := rules.InputFromMap(texts, nil)
	if err != nil {
		return []shiftIssue{{Kind: "api-mode-mismatch", Err: "rules.InputFromMap: " + err.Error(), Files: files, Config: cfg}}, 0
	}
	l := linter.NewLinter().WithPathPrefix(shiftRoot).WithInputModules(&in)
	if s.cfg != nil {
		l = l.WithUserConfig(*s.cfg)
	}
	rpt, err := l.Lint(ctx)
	if err != nil {
		return []shiftIssue{{Kind: "api-mode-mismatch", Err: "Lint: " + err.Error(), Files: files, Config: cfg}}, 0
	}
	c2 := cache.NewCache()
	for uri, ds := range convertReportToDiagnostics(&rpt, shiftRoot) {
		c2.SetFileDiagnostics(uri, ds)
	}
	var names []string
	for name := range files {
		names = append(names, name)
	}
	// per file only: a violation without a file (no-defined-entrypoint) carries no location, and updateAllDiagnostics stores
	// nothing under the workspace root
	sort.Strings(names)
	for _, name := range names {
		uri := shiftRoot + "/" + name
		api := shiftSnapshot(c2, uri)
		n += len(api)
		for _, d := range shiftMinus(base[name], api) {
			d := d
			res = append(res, shiftIssue{Kind: "api-mode-mismatch", File: name, Diag: &d, Other: "only the server reports it", Before: base[name], After: api, Files: files, Config: cfg})
		}
		for _, d := range shiftMinus(api, base[name]) {
			d := d
			res = append(res, shiftIssue{Kind: "api-mode-mismatch", File: name, Diag: &d, Other: "only the one-call API lint reports it", Before: base[name], After: api, Files: files, Config: cfg})
		}
	}
	return res, n
}

// shiftEdit: what the server does for one textDocument/didChange of `name`
func (s *shiftSession) shiftEdit(ctx context.Context, name, content string) (string, error) {
	uri := shiftRoot + "/" + name
	s.c.SetFileContents(uri, content)
	ok, err := updateParse(ctx, s.c, s.store, uri, nil, ast.RegoV1)
	if err != nil {
		return "", err
	}
	if !ok {
		return "shifted text does not parse", nil
	}
	if err := updateFileDiagnostics(ctx, s.c, s.cfg, uri, shiftRoot, s.nonAgg); err != nil {
		return "", err
	}
	return "", updateAllDiagnostics(ctx, s.c, s.cfg, shiftRoot, false, true, s.agg)
}

// shiftCheckEdit runs load + ONE edit on a fresh cache and returns the issues of that edit
// (used for minimisation; the main loop chains the edits on one cache like a real session)
func shiftCheckOne(ctx context.Context, files map[string]string, cfg, name string, e shiftEditSpec) []shiftIssue {
	s, skip, err := shiftLoad(ctx, files, cfg)
	if err != nil || skip != "" {
		return nil
	}
	base := map[string][]shiftDiag{}
	for n := range files {
		base[n] = shiftSnapshot(s.c, shiftRoot+"/"+n)
	}
	base[""] = shiftSnapshot(s.c, shiftRoot)
	skip, err = s.shiftEdit(ctx, name, e.apply(files[name]))
	if err != nil || skip != "" {
		return nil
	}
	return shiftCompare(s, files, base, name, e)
}

func shiftCompare(s *shiftSession, files map[string]string, base map[string][]shiftDiag, name string, e shiftEditSpec) (res []shiftIssue) {
	k := e.K
	defer func() {
		for i := range res {
			res[i].Edit, res[i].EditText = e, e.String()
		}
	}()
	uri := shiftRoot + "/" + name
	after := shiftSnapshot(s.c, uri)
	want := shiftMoved(base[name], e)
	for _, d := range shiftMinus(want, after) {
		d := d
		res = append(res, shiftIssue{Kind: "missing-after-edit", File: name, K: k, Diag: &d, Before: base[name], After: after})
	}
	for _, d := range shiftMinus(after, want) {
		d := d
		res = append(res, shiftIssue{Kind: "extra-after-edit", File: name, K: k, Diag: &d, Before: base[name], After: after})
	}
	content, _ := s.c.GetFileContents(uri)
	nLines := uint(len(strings.Split(content, "\n")))
	for _, d := range after {
		if d.Range[0] >= nLines || d.Range[2] >= nLines || d.Range[2] < d.Range[0] || (d.Range[2] == d.Range[0] && d.Range[3] < d.Range[1]) {
			d := d
			res = append(res, shiftIssue{Kind: "outside-file", File: name, K: k, Diag: &d, Before: base[name], After: after})
		}
	}
	var others []string
	for n := range files {
		if n != name {
			others = append(others, n)
		}
	}
	others = append(others, "")
	sort.Strings(others)
	for _, n := range others {
		u := shiftRoot
		if n != "" {
			u += "/" + n
		}
		now := shiftSnapshot(s.c, u)
		diff := append(shiftMinus(base[n], now), shiftMinus(now, base[n])...)
		if len(diff) > 0 {
			d := diff[0]
			res = append(res, shiftIssue{Kind: "other-file-changed", File: name, K: k, Other: n, Diag: &d, Before: base[n], After: now})
		}
	}
	return res
}

// shiftCheckOneSame: does the issue show on a fresh cache with its one edit alone?
func shiftCheckOneSame(ctx context.Context, is shiftIssue, files map[string]string, cfg string) []shiftIssue {
	var res []shiftIssue
	for _, j := range shiftCheckOne(ctx, files, cfg, is.File, is.Edit) {
		if shiftSameIssue(is, []shiftIssue{j}) {
			res = append(res, j)
		}
	}
	return res
}

func shiftSameIssue(a shiftIssue, bs []shiftIssue) bool {
	for _, b := range bs {
		if a.Kind == b.Kind && a.File == b.File && a.Other == b.Other && a.Diag != nil && b.Diag != nil && a.Diag.Code == b.Diag.Code && a.Edit.Kind == b.Edit.Kind {
			return true
		}
	}
	return false
}

// shiftMinimise shrinks the workspace while the same kind of issue (kind, rule, edited file) persists for this k:
// other files dropped, then line chunks of every file
func shiftMinimise(ctx context.Context, is shiftIssue, files map[string]string, cfg string, budget int) (shiftIssue, bool) {
	cur := map[string]string{}
	for n, t := range files {
		cur[n] = t
	}
	attempts := 0
	edit := is.Edit
	holds := func(fs map[string]string) bool {
		if attempts >= budget {
			return false
		}
		attempts++
		return shiftSameIssue(is, shiftCheckOne(ctx, fs, cfg, is.File, edit))
	}
	if !holds(cur) {
		// needs the history of earlier edits of the session: reported as found (the caller attaches the history)
		is.Files, is.Config, is.Attempts = files, cfg, attempts
		return is, false
	}
	var names []string
	for n := range cur {
		names = append(names, n)
	}
	sort.Strings(names)
	for _, n := range names {
		// never below two files: a one-file workspace is linted without the aggregate phase, a different mode
		if n == is.File || n == is.Other || len(cur) <= 2 {
			continue
		}
		cand := map[string]string{}
		for m, t := range cur {
			if m != n {
				cand[m] = t
			}
		}
		if holds(cand) {
			cur = cand
		}
	}
	names = names[:0]
	for n := range cur {
		names = append(names, n)
	}
	sort.Strings(names)
	for _, n := range names {
		lines := strings.Split(cur[n], "\n")
		for chunk := len(lines) / 2; chunk >= 1; chunk /= 2 {
			for i := 0; i+chunk <= len(lines); {
				saved := edit
				if n == is.File && edit.Kind == "mid" {
					// the insertion point stays between the same two lines (a blank line and the start of a chunk)
					switch {
					case i+chunk <= edit.Row-1:
						edit.Row -= chunk
					case i > edit.Row:
					default:
						i += chunk
						continue
					}
				}
				cl := append(append([]string{}, lines[:i]...), lines[i+chunk:]...)
				cand := map[string]string{}
				for m, t := range cur {
					cand[m] = t
				}
				cand[n] = strings.Join(cl, "\n")
				if len(cl) > 0 && holds(cand) {
					lines = cl
					cur = cand
				} else {
					edit = saved
					i += chunk
				}
			}
		}
	}
	for _, j := range shiftCheckOne(ctx, cur, cfg, is.File, edit) {
		if shiftSameIssue(is, []shiftIssue{j}) {
			j.Files, j.Config, j.Minimal, j.Attempts = cur, cfg, true, attempts
			return j, true
		}
	}
	is.Files, is.Config, is.Attempts = files, cfg, attempts
	return is, true
}

func shiftRunWS(ctx context.Context, ws shiftWS) shiftResult {
	res := shiftResult{Name: ws.Name, Baseline: map[string][]shiftDiag{}, ByCode: map[string]int{}, EditsByKind: map[string]int{}}
	for n, t := range ws.Files {
		if !strings.Contains(t, "#") {
			res.CommentFree = append(res.CommentFree, n)
		}
	}
	sort.Strings(res.CommentFree)
	fail := func(name string, k int, err error) {
		res.Issues = append(res.Issues, shiftIssue{Kind: "error", File: name, K: k, Err: err.Error(), Files: ws.Files, Config: ws.Config})
	}
	s, skip, err := shiftLoad(ctx, ws.Files, ws.Config)
	if err != nil {
		fail("", 0, err)
		return res
	}
	if skip != "" {
		res.Skipped = skip
		return res
	}
	res.Aggregate = s.agg
	for n := range ws.Files {
		res.Baseline[n] = shiftSnapshot(s.c, shiftRoot+"/"+n)
		for _, d := range res.Baseline[n] {
			res.ByCode[d.Code]++
		}
	}
	res.Baseline[""] = shiftSnapshot(s.c, shiftRoot)
	res.ModeIssues, res.ModeCompared = shiftAPIMode(ctx, s, ws.Files, ws.Config, res.Baseline)
	program := ws.Program
	if len(program) == 0 {
		edit := ws.Edit
		if len(edit) == 0 {
			for n := range ws.Files {
				edit = append(edit, n)
			}
			sort.Strings(edit)
		}
		for _, name := range edit {
			// one session: the edits follow each other on the same cache (each one replaces the ORIGINAL text by a variant that
			// differs in layout only); the last one of a file restores its original text
			for _, k := range ws.Ks {
				program = append(program, shiftStep{name, shiftEditSpec{Kind: "top", K: k}})
			}
			for ci, row := range ws.Cuts[name] {
				for ki, k := range ws.MidKs {
					// quick: the k values rotate over the cuts; MidCross: every k at every cut
					if ws.MidCross || ki == ci%len(ws.MidKs) {
						program = append(program, shiftStep{name, shiftEditSpec{Kind: "mid", Row: row, K: k}})
					}
				}
			}
			for _, k := range ws.TailKs {
				program = append(program, shiftStep{name, shiftEditSpec{Kind: "tail", K: k}})
			}
			program = append(program, shiftStep{name, shiftEditSpec{Kind: "top", K: 0}})
		}
	}
	seen := map[string]bool{}
	minimised, tried := 0, 0
	for pi, st := range program {
		name, e := st.File, st.Edit
		if _, ok := ws.Files[name]; !ok {
			continue
		}
		skip, err := s.shiftEdit(ctx, name, e.apply(ws.Files[name]))
		if err != nil {
			fail(name, e.K, err)
			return res
		}
		if skip != "" {
			continue
		}
		res.Edits++
		res.EditsByKind[e.Kind]++
		res.Compared += len(res.Baseline[name])
		for _, is := range shiftCompare(s, ws.Files, res.Baseline, name, e) {
			code := ""
			if is.Diag != nil {
				code = is.Diag.Code
			}
			sig := is.Kind + "|" + code + "|" + e.Kind
			if seen[sig] {
				continue
			}
			seen[sig] = true
			fresh := false
			switch {
			case is.Kind == "error":
			case minimised < 2 && tried < 8:
				tried++
				if is, fresh = shiftMinimise(ctx, is, ws.Files, ws.Config, 40); fresh {
					minimised++
				}
			case tried < 10:
				tried++
				is.Files, is.Config = ws.Files, ws.Config
				fresh = len(shiftCheckOneSame(ctx, is, ws.Files, ws.Config)) > 0
			default:
				is.Files, is.Config = ws.Files, ws.Config
			}
			if !fresh {
				is.Files, is.Config = ws.Files, ws.Config
				is.History = append([]shiftStep{}, program[:pi+1]...)
			}
			res.Issues = append(res.Issues, is)
		}
	}
	return res
}

func TestVerifC07Shift(t *testing.T) {
	inPath, outPath := os.Getenv("VERIF_C07_SHIFT_IN"), os.Getenv("VERIF_C07_SHIFT_OUT")
	if inPath == "" {
		t.Skip("no input")
	}
	bs, err := os.ReadFile(inPath)
	if err != nil {
		t.Fatal(err)
	}
	var wss []shiftWS
	if err := json.Unmarshal(bs, &wss); err != nil {
		t.Fatal(err)
	}
	results := make([]shiftResult, len(wss))
	var wg sync.WaitGroup
	sem := make(chan struct{}, 6)
	for i := range wss {
		wg.Add(1)
		sem <- struct{}{}
		go func(i int) {
			defer wg.Done()
			defer func() { <-sem }()
			results[i] = shiftRunWS(context.Background(), wss[i])
		}(i)
	}
	wg.Wait()
	out, _ := json.Marshal(results)
	if err := os.WriteFile(outPath, out, 0o644); err != nil {
		t.Fatal(err)
	}
}
