// Overlay test injected into /repo/internal/git (package git) by tools/props/c14.py: what FindGitRepo and
// GetChangedFiles (go-git's status) say about every workspace prepared by harness/cmd/c14.
package git

import (
	"bufio"
	"encoding/json"
	"os"
	"sort"
	"strings"
	"testing"
)

type vprepared struct {
	Idx   int      `json:"idx"`
	Root  string   `json:"root"` // as spelled by the invocation (possibly through a symbolic link)
	Real  string   `json:"real"` // without symbolic links
	Cwd   string   `json:"cwd"`
	Args  []string `json:"args"`
	Repos []string `json:"repos"`
}

func TestVerifC14Git(t *testing.T) {
	in, outPath := os.Getenv("VERIF_IN"), os.Getenv("VERIF_OUT")
	if in == "" || outPath == "" {
		t.Skip("VERIF_IN/VERIF_OUT not set")
	}
	f, err := os.Open(in)
	if err != nil {
		t.Fatal(err)
	}
	defer f.Close()
	o, err := os.Create(outPath)
	if err != nil {
		t.Fatal(err)
	}
	defer o.Close()
	w := bufio.NewWriter(o)
	defer w.Flush()
	sc := bufio.NewScanner(f)
	sc.Buffer(make([]byte, 1<<20), 1<<26)
	home, _ := os.Getwd()
	defer os.Chdir(home)
	for sc.Scan() {
		var p vprepared
		if err := json.Unmarshal(sc.Bytes(), &p); err != nil {
			t.Fatal(err)
		}
		rec := map[string]any{"idx": p.Idx}
		if err := os.Chdir(p.Cwd); err != nil {
			t.Fatal(err)
		}
		os.Setenv("PWD", p.Cwd) // as a shell does: the working directory as spelled
		norm := func(s string) string {
			s = strings.Replace(s, p.Root, "/R", 1)
			if p.Real != "" && p.Real != p.Root {
				s = strings.Replace(s, p.Real, "/R.real", 1)
			}
			return s
		}
		repo, err := FindGitRepo(p.Args...)
		switch {
		case err != nil:
			rec["repo"] = "!error"
		case repo == "":
			rec["repo"] = "!none"
		default:
			rec["repo"] = norm(repo)
		}
		status := map[string][]string{}
		for _, r := range p.Repos {
			keys, err := GetChangedFiles(r)
			if err != nil {
				keys = []string{"!error: " + err.Error()}
			}
			sort.Strings(keys)
			if keys == nil {
				keys = []string{}
			}
			status[norm(r)] = keys
		}
		rec["status"] = status
		b, _ := json.Marshal(rec)
		w.Write(b)
		w.WriteByte('\n')
	}
}
