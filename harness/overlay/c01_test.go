// Overlay test for C01 (injected into internal/cache with `go test -overlay`; nothing is added
// to the repository): drives the real base cache with histories of Put/Get over a random
// document and prints what Get answered, sequentially (compared with Model/BaseCache.v in Coq)
// and from concurrent goroutines (every answer must be nil or the document's own value).
package cache

import (
	"encoding/json"
	"flag"
	"fmt"
	"os"
	"strconv"
	"sync"
	"testing"

	"github.com/open-policy-agent/opa/v1/ast"
)

type vrng struct{ s uint64 }

func (r *vrng) next() uint64 {
	r.s += 0x9E3779B97F4A7C15
	z := r.s
	z = (z ^ (z >> 30)) * 0xBF58476D1CE4E5B9
	z = (z ^ (z >> 27)) * 0x94D049BB133111EB
	return z ^ (z >> 31)
}
func (r *vrng) below(n int) int { return int(r.next() % uint64(n)) }

const verifKeys = 4

func verifDoc(r *vrng, depth int) any {
	if depth == 0 || r.below(4) == 0 {
		return r.below(50)
	}
	m := map[string]any{}
	n := 1 + r.below(3)
	for i := 0; i < n; i++ {
		m["k"+strconv.Itoa(r.below(verifKeys))] = verifDoc(r, depth-1)
	}
	return m
}

func verifRef(r *vrng) ([]int, ast.Ref) {
	n := 1 + r.below(4)
	ks := make([]int, n)
	ref := make(ast.Ref, n)
	for i := range ks {
		ks[i] = r.below(verifKeys)
		ref[i] = ast.StringTerm("k" + strconv.Itoa(ks[i]))
	}
	return ks, ref
}

func verifJSON(v ast.Value) any {
	if v == nil {
		return nil
	}
	j, err := ast.JSON(v)
	if err != nil {
		panic(err)
	}
	return j
}

func TestVerifC01(t *testing.T) {
	args := flag.Args()
	if len(args) < 3 {
		t.Skip("driven by /verif/tools/props/c01.py")
	}
	seed, _ := strconv.ParseUint(args[1], 10, 64)
	nhist, nops, nconc := 60, 40, 4
	if args[2] != "quick" {
		nhist, nops, nconc = 600, 60, 12
	}
	f, err := os.Create(args[0])
	if err != nil {
		t.Fatal(err)
	}
	defer f.Close()
	enc := json.NewEncoder(f)
	r := &vrng{s: seed}
	for h := 0; h < nhist; h++ {
		doc := verifDoc(r, 3)
		if _, ok := doc.(map[string]any); !ok {
			doc = map[string]any{"k0": doc}
		}
		dv := ast.MustInterfaceToValue(doc)
		c := NewBaseCache()
		var ops []any
		for i := 0; i < nops; i++ {
			ks, ref := verifRef(r)
			if r.below(2) == 0 {
				if sub, err := dv.Find(ref); err == nil {
					c.Put(ref, sub)
					ops = append(ops, []any{"put", ks})
				}
			} else {
				ops = append(ops, []any{"get", ks, verifJSON(c.Get(ref))})
			}
		}
		_ = enc.Encode(map[string]any{"kind": "cache", "doc": doc, "ops": ops})
	}
	// concurrent histories: the RWMutex makes them sequences; every answer must be sound
	for h := 0; h < nconc; h++ {
		doc := verifDoc(r, 3)
		if _, ok := doc.(map[string]any); !ok {
			doc = map[string]any{"k0": doc}
		}
		dv := ast.MustInterfaceToValue(doc)
		c := NewBaseCache()
		var wg sync.WaitGroup
		var mu sync.Mutex
		gets, hits, bad := 0, 0, 0
		example := ""
		for g := 0; g < 8; g++ {
			wg.Add(1)
			go func(seed uint64) {
				defer wg.Done()
				rr := &vrng{s: seed}
				for i := 0; i < 300; i++ {
					_, ref := verifRef(rr)
					sub, ferr := dv.Find(ref)
					if rr.below(3) == 0 {
						if ferr == nil {
							c.Put(ref, sub)
						}
						continue
					}
					got := c.Get(ref)
					mu.Lock()
					gets++
					if got != nil {
						hits++
						if ferr != nil || got.Compare(sub) != 0 {
							bad++
							example = fmt.Sprintf("Get(%v) = %v, document has %v", ref, got, sub)
						}
					}
					mu.Unlock()
				}
			}(r.next())
		}
		wg.Wait()
		_ = enc.Encode(map[string]any{"kind": "cache-conc", "doc": doc, "gets": gets, "hits": hits, "bad": bad, "example": example})
	}
}
